#!/bin/bash
set -e
cd "$(dirname "$0")/govc"
export GOFLAGS=-mod=mod GOPROXY=off GOSUMDB=off GOTOOLCHAIN=local
go build -o ../bin/govc .
