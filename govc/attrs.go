package main

// Ghost attributes of error values (DESIGN 4.11, 4.13): structured, is_ctx, cause_ctx, fam.
// Transfer rules are the assumed contracts of the error constructors; they are attached to the
// symbolic execution through the AfterCall / OnMakeInterface hooks.

import (
	"go/ast"
	"go/token"
	"go/types"
	"strings"

	"golang.org/x/tools/go/ssa"
)

const errPkg = modPath + "/pkg/errors"

type attrs struct {
	e         *Engine
	famOf     map[*ssa.Function]int // builder -> code family (1..4), 0 = takes the code as first argument
	isBuilder map[*ssa.Function]bool
}

func codeFamily(code string) int {
	if len(code) >= 2 && code[0] == 'E' && code[1] >= '1' && code[1] <= '9' {
		return int(code[1] - '0')
	}
	return 0
}

func newAttrs(e *Engine) *attrs {
	a := &attrs{e: e, famOf: map[*ssa.Function]int{}, isBuilder: map[*ssa.Function]bool{}}
	sp := e.SPkgs[errPkg]
	if sp == nil {
		return a
	}
	for _, m := range sp.Members {
		fn, ok := m.(*ssa.Function)
		if !ok || fn.Blocks == nil {
			continue
		}
		res := fn.Signature.Results()
		if res.Len() != 1 || !isErrPtr(res.At(0).Type()) {
			continue
		}
		a.isBuilder[fn] = true
		// the code constant the builder passes to NewError (read from the source's SSA)
		for _, b := range fn.Blocks {
			for _, ins := range b.Instrs {
				if c, ok := ins.(*ssa.Call); ok {
					if callee := c.Call.StaticCallee(); callee != nil && callee.Name() == "NewError" && len(c.Call.Args) > 0 {
						if k, ok := c.Call.Args[0].(*ssa.Const); ok {
							a.famOf[fn] = codeFamily(constString(k))
						}
					}
				}
			}
		}
	}
	return a
}

func isErrPtr(t types.Type) bool {
	p, ok := t.(*types.Pointer)
	if !ok {
		return false
	}
	n, ok := p.Elem().(*types.Named)
	return ok && n.Obj().Pkg() != nil && n.Obj().Pkg().Path() == errPkg && n.Obj().Name() == "Error"
}

func (a *attrs) decl(q *Query) {
	q.declareFun("g_struct", []string{"Int", "Int"}, "Bool")
	q.declareFun("g_isctx", []string{"Int", "Int"}, "Bool")
	q.declareFun("g_causectx", []string{"Int", "Int"}, "Bool")
	q.declareFun("g_fam", []string{"Int", "Int"}, "Int")
	q.declareFun("gp_fam", []string{"Int"}, "Int")
	q.declareFun("gp_causectx", []string{"Int"}, "Bool")
	q.declareFun("gp_isctx", []string{"Int"}, "Bool")
	q.declareFun("gs_ctx", []string{"Str"}, "Bool")
	if !q.declared["attr-axioms"] {
		q.declared["attr-axioms"] = true
		q.asserts = append(q.asserts,
			"(forall ((a Str) (b Str)) (! (= (gs_ctx (scat a b)) (or (gs_ctx a) (gs_ctx b))) :pattern ((scat a b))))",
			"(not (gs_ctx str_empty))",
			// nil error carries nothing
			"(and (not (g_struct 0 0)) (not (g_isctx 0 0)) (not (g_causectx 0 0)))")
	}
}

func app(f string, v Val) string { return "(" + f + " " + v.C[0] + " " + v.C[1] + ")" }

// varargsOf: the values packed into a variadic []any argument, in index order
func varargsOf(v ssa.Value) []ssa.Value {
	sl, ok := v.(*ssa.Slice)
	if !ok {
		return nil
	}
	al, ok := sl.X.(*ssa.Alloc)
	if !ok {
		return nil
	}
	byIdx := map[int64]ssa.Value{}
	max := int64(-1)
	if refs := al.Referrers(); refs != nil {
		for _, r := range *refs {
			ia, ok := r.(*ssa.IndexAddr)
			if !ok {
				continue
			}
			c, ok := ia.Index.(*ssa.Const)
			if !ok {
				continue
			}
			n, _ := constInt64(c)
			if irefs := ia.Referrers(); irefs != nil {
				for _, rr := range *irefs {
					if st, ok := rr.(*ssa.Store); ok && st.Addr == ia {
						v := st.Val
						if mi, ok := v.(*ssa.MakeInterface); ok {
							v = mi.X
						}
						if ci, ok := v.(*ssa.ChangeInterface); ok {
							v = ci.X
						}
						byIdx[n] = v
						if n > max {
							max = n
						}
					}
				}
			}
		}
	}
	out := make([]ssa.Value, max+1)
	for i := range out {
		out[i] = byIdx[int64(i)]
	}
	return out
}

func formatVerbs(f string) []byte {
	var out []byte
	for i := 0; i < len(f); i++ {
		if f[i] != '%' {
			continue
		}
		i++
		for i < len(f) && strings.ContainsRune("+-# 0123456789.*[]", rune(f[i])) {
			i++
		}
		if i < len(f) && f[i] != '%' {
			out = append(out, f[i])
		}
	}
	return out
}

// mayCarryMessage: can this string value contain the text of an error? (Error() results, fmt formatting,
// concatenation, joins, phis of those, parameters and results of repo functions taking/returning strings)
func mayCarryMessage(v ssa.Value, d int) bool {
	if d > 8 {
		return true
	}
	switch x := v.(type) {
	case *ssa.Const:
		return false
	case *ssa.Convert:
		return false // string(bytes), string(rune)
	case *ssa.Slice:
		return mayCarryMessage(x.X, d+1)
	case *ssa.UnOp, *ssa.Field, *ssa.Lookup, *ssa.Index:
		return false // loads from tokens, AST nodes, tables
	case *ssa.BinOp:
		return mayCarryMessage(x.X, d+1) || mayCarryMessage(x.Y, d+1)
	case *ssa.Phi:
		for _, e := range x.Edges {
			if e != v && mayCarryMessage(e, d+1) {
				return true
			}
		}
		return false
	case *ssa.Call:
		if x.Call.IsInvoke() {
			return x.Call.Method.Name() == "Error" || x.Call.Method.Name() == "String"
		}
		if f := x.Call.StaticCallee(); f != nil {
			switch funcPkgPath(f) {
			case "strings", "strconv", "unicode", "unicode/utf8":
				for _, a := range x.Call.Args {
					if isStringT(a.Type()) && mayCarryMessage(a, d+1) {
						return true
					}
				}
				return false
			}
			// a function that is handed no error and no message text cannot return one
			for _, a := range x.Call.Args {
				if isErrorIface(a.Type()) || (isStringT(a.Type()) && mayCarryMessage(a, d+1)) {
					return true
				}
			}
			return false
		}
		return true
	case *ssa.Extract:
		return true
	case *ssa.Parameter:
		return true
	}
	return true
}

func isErrorIface(t types.Type) bool { return isErrorType(t) }

func isStringT(t types.Type) bool {
	b, ok := underlying(t).(*types.Basic)
	return ok && b.Info()&types.IsString != 0
}

// taintOf: condition under which a formatted argument carries a cancellation cause into a string
func (a *attrs) taintOf(fr *Frame, v ssa.Value) string {
	if v == nil {
		return "false"
	}
	switch {
	case isErrorIface(v.Type()):
		return app("g_causectx", fr.val(v))
	case isStringT(v.Type()):
		if !mayCarryMessage(v, 0) {
			return "false" // closed world: only Error() results, formatted strings and their concatenations carry a cause
		}
		return "(gs_ctx " + fr.val(v).C[0] + ")"
	case isErrPtr(v.Type()):
		return "(gp_causectx " + fr.val(v).C[0] + ")"
	}
	return "false"
}

func (a *attrs) install(opts *VCOpts) {
	opts.StrConstFact = func(q *Query, sym string) string {
		a.decl(q)
		return "(not (gs_ctx " + sym + "))" // literals carry no cancellation cause
	}
	opts.OnMakeInterface = func(fr *Frame, x *ssa.MakeInterface, iv Val) {
		if !isErrPtr(x.X.Type()) {
			return
		}
		q := fr.q
		a.decl(q)
		p := iv.C[1]
		q.assume("true", sAnd(
			sEq(app("g_struct", iv), "(not (= "+p+" 0))"),
			sEq(app("g_fam", iv), "(gp_fam "+p+")"),
			sEq(app("g_causectx", iv), "(gp_causectx "+p+")"),
			sEq(app("g_isctx", iv), "(gp_isctx "+p+")")))
	}
	opts.AfterCall = func(fr *Frame, ins ssa.Instruction, c *ssa.CallCommon, callee *ssa.Function, args []Val, res Val) {
		q := fr.q
		a.decl(q)
		reach := fr.cur.reach
		if c.IsInvoke() {
			key := typeKey(c.Value.Type()) + "." + c.Method.Name()
			switch key {
			case "context.Context.Err":
				if len(res.C) == 2 {
					q.assume(reach, sImp("(not (= "+res.C[0]+" 0))", sAnd(app("g_isctx", res), app("g_causectx", res), sNot(app("g_struct", res)))))
				}
			case "error.Error":
				if len(res.C) == 1 {
					recv := fr.val(c.Value)
					q.assume(reach, sEq("(gs_ctx "+res.C[0]+")", app("g_causectx", recv)))
				}
			}
			return
		}
		if callee == nil {
			return
		}
		full := callee.String()
		switch full {
		case "errors.New":
			q.assume(reach, sAnd(sNot(app("g_struct", res)), sNot(app("g_isctx", res)), sNot(app("g_causectx", res))))
			return
		case "fmt.Errorf", "fmt.Sprintf":
			var format string
			if k, ok := c.Args[0].(*ssa.Const); ok {
				format = constString(k)
			}
			var vs []ssa.Value
			if len(c.Args) > 1 {
				vs = varargsOf(c.Args[1])
			}
			verbs := formatVerbs(format)
			taint := []string{}
			wrapped := -1
			for i, vb := range verbs {
				if i >= len(vs) {
					break
				}
				if vb == 'w' && wrapped < 0 {
					wrapped = i
					continue
				}
				taint = append(taint, a.taintOf(fr, vs[i]))
			}
			if full == "fmt.Sprintf" {
				if len(res.C) == 1 {
					q.assume(reach, sEq("(gs_ctx "+res.C[0]+")", sOr(taint...)))
				}
				return
			}
			if wrapped >= 0 && vs[wrapped] != nil && isErrorIface(vs[wrapped].Type()) {
				w := fr.val(vs[wrapped])
				q.assume(reach, sAnd(
					sEq(app("g_struct", res), app("g_struct", w)),
					sEq(app("g_isctx", res), app("g_isctx", w)),
					sEq(app("g_fam", res), app("g_fam", w)),
					sEq(app("g_causectx", res), sOr(append([]string{app("g_causectx", w)}, taint...)...))))
			} else {
				q.assume(reach, sAnd(sNot(app("g_struct", res)), sNot(app("g_isctx", res)),
					sEq(app("g_causectx", res), sOr(taint...))))
			}
			return
		}
		if a.isBuilder[callee] && len(res.C) == 1 {
			p := res.C[0]
			var taint, isctx []string
			for i, av := range c.Args {
				switch {
				case isStringT(av.Type()):
					taint = append(taint, a.taintOf(fr, av))
				case isErrorIface(av.Type()):
					taint = append(taint, app("g_causectx", args[i]))
					isctx = append(isctx, app("g_isctx", args[i]))
				}
			}
			fam := ""
			if f, ok := a.famOf[callee]; ok {
				fam = sInt(int64(f))
			} else if len(c.Args) > 0 {
				if k, ok := c.Args[0].(*ssa.Const); ok {
					fam = sInt(int64(codeFamily(constString(k))))
				}
			}
			facts := []string{"(not (= " + p + " 0))", sEq("(gp_causectx "+p+")", sOr(taint...)), sEq("(gp_isctx "+p+")", sOr(isctx...))}
			if fam != "" {
				facts = append(facts, sEq("(gp_fam "+p+")", fam))
			}
			q.assume(reach, sAnd(facts...))
			return
		}
		// methods of *Error that return the receiver (WithContext, WithHint, WithCause)
		if recv := callee.Signature.Recv(); recv != nil && isErrPtr(recv.Type()) && len(res.C) == 1 && isErrPtr(callee.Signature.Results().At(0).Type()) {
			p, r := args[0].C[0], res.C[0]
			taint := []string{"(gp_causectx " + p + ")"}
			isctx := []string{"(gp_isctx " + p + ")"}
			for i, av := range c.Args {
				if i > 0 && isErrorIface(av.Type()) {
					taint = append(taint, app("g_causectx", args[i]))
					isctx = append(isctx, app("g_isctx", args[i]))
				}
			}
			q.assume(reach, sAnd(sEq("(= "+r+" 0)", "(= "+p+" 0)"), sEq("(gp_fam "+r+")", "(gp_fam "+p+")"),
				sEq("(gp_causectx "+r+")", sOr(taint...)), sEq("(gp_isctx "+r+")", sOr(isctx...))))
		}
	}
}

// string constants carry no cancellation cause
func (a *attrs) constFacts(q *Query) {
	a.decl(q)
}

func init() {
	one := func(f string) func(env *SpecEnv, x *ast.CallExpr) (SV, error) {
		return func(env *SpecEnv, x *ast.CallExpr) (SV, error) {
			v, err := env.eval(x.Args[0])
			if err != nil {
				return SV{}, err
			}
			if len(v.V.C) != 2 {
				if len(v.V.C) == 1 && isErrPtr(v.T) {
					// *Error: the attribute of the pointer
					switch f {
					case "g_struct":
						return boolSV("(not (= " + v.V.C[0] + " 0))"), nil
					case "g_isctx":
						return boolSV("(gp_isctx " + v.V.C[0] + ")"), nil
					case "g_causectx":
						return boolSV("(gp_causectx " + v.V.C[0] + ")"), nil
					case "g_fam":
						return intSV("(gp_fam " + v.V.C[0] + ")"), nil
					}
				}
				return SV{}, errNotErr
			}
			(&attrs{}).decl(env.fr.q)
			if f == "g_fam" {
				return intSV(app(f, v.V)), nil
			}
			return boolSV(app(f, v.V)), nil
		}
	}
	specBuiltinsExtra["msgctx"] = func(env *SpecEnv, x *ast.CallExpr) (SV, error) {
		v, err := env.eval(x.Args[0])
		if err != nil {
			return SV{}, err
		}
		if len(v.V.C) != 1 || env.sortOf(v) != "Str" {
			return SV{}, errNotErr
		}
		(&attrs{}).decl(env.fr.q)
		return boolSV("(gs_ctx " + v.V.C[0] + ")"), nil
	}
	specBuiltinsExtra["structured"] = one("g_struct")
	specBuiltinsExtra["isctx"] = one("g_isctx")
	specBuiltinsExtra["causectx"] = one("g_causectx")
	specBuiltinsExtra["fam"] = one("g_fam")
}

var errNotErr = errString("attribute of a non-error value")

type errString string

func (e errString) Error() string { return string(e) }

var specBuiltinsExtra = map[string]func(env *SpecEnv, x *ast.CallExpr) (SV, error){}

var _ = token.ADD
