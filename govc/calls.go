package main

import (
	"fmt"
	"go/ast"
	"go/token"
	"go/types"
	"os"
	"sort"
	"strings"

	"golang.org/x/tools/go/ssa"
)

func calleeName(fn *ssa.Function) string {
	// full name: "pkgpath.Func" or "(*pkgpath.T).Method" / "(pkgpath.T).Method"
	return fn.String()
}

func (fr *Frame) call(x *ssa.Call) {
	c := x.Common()
	args := make([]Val, len(c.Args))
	for i, a := range c.Args {
		args[i] = fr.val(a)
	}
	res, ok := fr.doCall(x, c, args, x.Type())
	if !ok {
		return
	}
	l := layoutOf(x.Type())
	if len(res.C) != len(l.leaves) {
		res = fr.freshVal(fr.sym(x), x.Type(), fr.cur.reach, fr.cur.st)
	}
	if fr.q.opts.AfterCall != nil && fr.cur.reach != "false" {
		fr.q.opts.AfterCall(fr, x, c, c.StaticCallee(), args, res)
	}
	if fr.cur.reach != "false" {
		fr.setVal(x, res)
	} else {
		fr.vals[x] = res
	}
}

func (fr *Frame) callOrdinal(name string) int {
	fr.root().callOrd[name]++
	return fr.root().callOrd[name]
}

// doCall performs the effect of a call on fr.cur and returns the result value.
func (fr *Frame) doCall(ins ssa.Instruction, c *ssa.CallCommon, args []Val, rt types.Type) (Val, bool) {
	if fr.q.opts == nil || !fr.q.opts.Cost {
		return fr.doCall0(ins, c, args, rt)
	}
	pre := fr.q.get(fr.cur.st, "$ticks")
	fr.callMode = ""
	res, ok := fr.doCall0(ins, c, args, rt)
	mode := fr.callMode
	if os.Getenv("GOVC_DEBUG_COST") != "" {
		fmt.Fprintf(os.Stderr, "cost: %s calls %v mode=%s\n", fr.fn.Name(), c.Value.Name(), mode)
	}
	if fr.cur.reach == "false" {
		return res, ok
	}
	if ct, assumed := fr.callCost(mode, c, args, res); assumed {
		fr.cur.st.v["$ticks"] = "(+ " + pre + " " + ct + ")"
	}
	return res, ok
}

func (fr *Frame) doCall0(ins ssa.Instruction, c *ssa.CallCommon, args []Val, rt types.Type) (Val, bool) {
	q := fr.q
	st := fr.cur.st
	if b, ok := c.Value.(*ssa.Builtin); ok {
		fr.callMode = "builtin"
		return fr.builtin(ins, b, c, args, rt), true
	}
	if c.IsInvoke() {
		recv := fr.val(c.Value)
		fr.safety("nil", describe(c.Value)+"."+c.Method.Name(), c.Pos(), "(not (= "+recv.C[0]+" 0))")
		if q.opts.OnCall != nil {
			if ci, ok := ins.(ssa.CallInstruction); ok {
				q.opts.OnCall(fr, ci, nil, append([]Val{recv}, args...))
			}
		}
		if v, ok := fr.invokeIntrinsic(ins, c, recv, args, rt); ok {
			fr.callMode = "extern"
			return v, true
		}
		fr.callMode = "invoke"
		ms := fr.invokeModSet(c)
		fr.havocMod(st, ms)
		return fr.freshVal(fr.prefix+"_inv_"+c.Method.Name(), rt, fr.cur.reach, st), true
	}
	var callee *ssa.Function
	var free []Val
	switch v := c.Value.(type) {
	case *ssa.Function:
		callee = v
	case *ssa.MakeClosure:
		callee = v.Fn.(*ssa.Function)
		for _, b := range v.Bindings {
			free = append(free, fr.val(b))
		}
	}
	if callee == nil {
		if tg := q.eng.funcValueTargets(c.Value.Type()); tg != nil {
			ms := &ModSet{Arrs: map[string]bool{}}
			for _, f := range tg {
				if m := q.eng.modsets[f]; m != nil {
					ms.add(m)
				} else {
					ms.All = true
				}
			}
			fr.havocMod(st, ms)
			return fr.freshVal(fr.prefix+"_dyn", rt, fr.cur.reach, st), true
		}
		q.note("dynamic call in " + fnKey(fr.fn))
		fr.havocMod(st, &ModSet{All: true})
		return fr.freshVal(fr.prefix+"_dyn", rt, fr.cur.reach, st), true
	}
	if q.opts.OnCall != nil {
		if ci, ok := ins.(ssa.CallInstruction); ok {
			q.opts.OnCall(fr, ci, callee, args)
		}
	}
	if v, ok := fr.intrinsic(ins, callee, c, args, rt); ok {
		fr.callMode = "extern"
		return v, true
	}
	if q.eng.exemptLoops[fnKey(callee)] {
		q.newLoopHelpers[fnKey(callee)] = true
	}
	ct := q.eng.contractFor(callee, q.opts)
	if ct != nil && len(ct.Requires) == 0 && len(ct.Ensures) == 0 && fr.canInline(callee) {
		ct = nil // a contract that only carries loop clauses (closures): the body is executed in place
	}
	if ct != nil && ct.Default && smallLoopFree(callee) && fr.canInline(callee) {
		// a small loop-free helper that merely falls under a default contract is seen through its body, which says
		// more than the default contract does (e.g. a helper that tests the depth limit for its caller)
		ct = nil
	}
	if q.rtLeaves != nil && ct != nil && loopFree(callee) && fr.canInline(callee) {
		ct = nil // entry-point read tracking: see through small helpers (Reset and the like) so that their assignments count
	}
	if q.rtLeaves != nil && (ct != nil || !fr.canInline(callee)) {
		// the callee is not executed in place: whatever it may read of the tracked object must have been assigned
		var fams []string
		for fam := range q.rtLeaves {
			fams = append(fams, fam)
		}
		sort.Strings(fams)
		for _, fam := range fams {
			if q.eng.refAll[callee] || q.eng.refsets[callee][fam] {
				lf := q.rtLeaves[fam]
				fr.readCheck(fam, sAdd(q.rtBase, sInt(int64(lf.Off))), ins.Pos(), calleeName(callee))
			}
		}
	}
	if ct != nil {
		fr.callMode = "modular"
		if !ct.hasCost() {
			fr.callMode = "opaque"
		}
		return fr.modularCall(ins, callee, ct, c, args, rt), true
	}
	if fr.canInline(callee) {
		fr.callMode = "inline"
		return fr.inlineCall(ins, callee, args, free, rt), true
	}
	fr.callMode = "opaque"
	ms := q.eng.modsets[callee]
	fr.havocMod(st, ms)
	return fr.freshVal(fr.prefix+"_r_"+sanitize(callee.Name()), rt, fr.cur.reach, st), true
}

var smallCache = map[*ssa.Function]bool{}

func smallLoopFree(fn *ssa.Function) bool {
	if v, ok := smallCache[fn]; ok {
		return v
	}
	n := 0
	ok := fn.Blocks != nil
	for _, b := range fn.Blocks {
		n += len(b.Instrs)
		for _, s := range b.Succs {
			if s.Dominates(b) {
				ok = false
			}
		}
		for _, ins := range b.Instrs {
			if _, isDefer := ins.(*ssa.Defer); isDefer {
				ok = false
			}
		}
	}
	if n > 60 {
		ok = false
	}
	smallCache[fn] = ok
	return ok
}

func (fr *Frame) canInline(callee *ssa.Function) bool {
	if callee.Blocks == nil {
		return false
	}
	if fr.q.opts.NoInline != nil && fr.q.opts.NoInline[fnKey(callee)] {
		return false
	}
	if callee.Parent() == nil && fr.depth >= fr.q.opts.InlineDepth {
		return false
	}
	if callee.Parent() != nil && fr.depth >= fr.q.opts.InlineDepth+2 {
		return false // closures of the function under analysis are part of its body: two more levels
	}
	for f := fr; f != nil; f = f.parent {
		if f.fn == callee {
			return false
		}
	}
	n := 0
	for _, b := range callee.Blocks {
		n += len(b.Instrs)
	}
	if callee.Parent() != nil {
		return n <= 400 // closures of the function under analysis
	}
	if !fr.q.eng.inRepo(callee) {
		return false
	}
	// helpers of the same package only: a callee from another package is seen through its contract or its write set
	if !fr.q.opts.InlineAcrossPkgs && funcPkgPath(callee) != funcPkgPath(fr.root().fn) {
		return false
	}
	return n <= 120
}

func (fr *Frame) havocMod(st *State, ms *ModSet) {
	restore := fr.snapshotLocalsFor(st, nil, ms)
	fr.havocMod0(st, ms)
	restore(st)
}

// havocTicks: an unknown, non-negative number of steps was spent
func (fr *Frame) havocTicks(st *State) {
	old := fr.q.get(st, "$ticks")
	n := fr.q.fresh("ticks", "Int")
	fr.q.assume("true", fmt.Sprintf("(>= %s %s)", n, old))
	st.v["$ticks"] = n
}

func (fr *Frame) havocMod0(st *State, ms *ModSet) {
	q := fr.q
	if ms == nil || ms.All {
		q.havocAll(st)
		return
	}
	for _, a := range sortedKeys(ms.Arrs) {
		if _, ok := famLeafSort[a]; !ok {
			continue // family never referenced with a known sort: cannot matter
		}
		n := q.fresh(smtSym(a)+"@h", famSort(q, a))
		st.v[a] = n
	}
	if q.opts != nil && q.opts.Cost {
		fr.havocTicks(st)
	}
	if ms.Alloc {
		old := q.get(st, "$top")
		n := q.fresh("top", "Int")
		q.assume("true", fmt.Sprintf("(>= %s %s)", n, old))
		st.v["$top"] = n
	}
}

func (fr *Frame) invokeModSet(c *ssa.CallCommon) *ModSet {
	e := fr.q.eng
	it, ok := underlying(c.Value.Type()).(*types.Interface)
	if !ok {
		return &ModSet{All: true}
	}
	key := typeKey(c.Value.Type()) + "." + c.Method.Name()
	if ms, ok := invokeModCache[key]; ok {
		return ms
	}
	ms := &ModSet{Arrs: map[string]bool{}}
	if !strings.HasPrefix(typeKey(c.Value.Type()), modPath) {
		ms.All = true
		invokeModCache[key] = ms
		return ms
	}
	for _, t := range e.implementers(it, typeKey(c.Value.Type())) {
		sel := e.Prog.MethodSets.MethodSet(t).Lookup(c.Method.Pkg(), c.Method.Name())
		if sel == nil {
			continue
		}
		f := e.Prog.MethodValue(sel)
		if f == nil {
			continue
		}
		if m := e.modsets[f]; m != nil {
			ms.add(m)
		} else if f.Synthetic != "" {
			// wrapper: use its own computed set if present, else All
			ms.All = true
		}
	}
	invokeModCache[key] = ms
	return ms
}

var invokeModCache = map[string]*ModSet{}

// ---------- modular calls ----------

func (fr *Frame) modularCall(ins ssa.Instruction, callee *ssa.Function, ct *Contract, c *ssa.CallCommon, args []Val, rt types.Type) Val {
	q := fr.q
	st := fr.cur.st
	env := newSpecEnv(fr, callee)
	env.bindParams(callee, args)
	env.st = st
	env.old = st
	k := fr.callOrdinal(fnKey(callee))
	for i, r := range ct.Requires {
		t, err := env.evalBool(r.Expr)
		if err != nil {
			q.note(fmt.Sprintf("contract of %s: requires %d: %v", fnKey(callee), i, err))
			continue
		}
		txt := fmt.Sprintf("%s#%d:%s", fnKey(callee), k, r.Text)
		if q.opts.checksTag(r.Tag) {
			q.addObligation(fr, "pre", txt, ins.Pos(), fr.cur.reach, t)
		}
		q.assume(fr.cur.reach, t)
	}
	var accrued []string
	if q.opts.Cost {
		for _, a := range ct.Accrues {
			if t, err := env.evalInt(a.Expr); err == nil {
				accrued = append(accrued, t)
			} else {
				q.note(fmt.Sprintf("contract of %s: accrues: %v", fnKey(callee), err))
			}
		}
	}
	pre := st.clone()
	ms := q.eng.modsets[callee]
	if ct.Modifies != nil {
		ms = ct.Modifies
	}
	fr.havocMod(st, ms)
	res := fr.freshVal(fr.prefix+"_r_"+sanitize(callee.Name()), rt, fr.cur.reach, st)
	env.st = st
	env.old = pre
	env.bindResults(callee, res)
	var pk, calleePosAfter string
	pkNoLook := false
	if q.opts.Cost && q.peakFam != "" && len(args) > 0 {
		if fam, off, ok := q.eng.cursorOf(callee); ok {
			// the callee's own peak: at least where its cursor started and where it ended
			pk = q.fresh(fr.prefix+"_peak", "Int")
			a := sAdd(args[0].C[0], sInt(int64(off)))
			before := fmt.Sprintf("(select %s %s)", q.get(pre, fam), a)
			calleePosAfter = fmt.Sprintf("(select %s %s)", q.get(st, fam), a)
			q.assume(fr.cur.reach, fmt.Sprintf("(and (>= %s %s) (>= %s %s))", pk, before, pk, calleePosAfter))
			if !ct.mentionsPeak() {
				// a contract that does not speak of peak() does not justify any of its cost by looking ahead: as far as
				// the caller's accounting goes the callee looked no further than where it stopped
				q.assume(fr.cur.reach, sEq(pk, fmt.Sprintf("(ite (>= %s %s) %s %s)", before, calleePosAfter, before, calleePosAfter)))
				q.assume(fr.cur.reach, "true")
				pkNoLook = true
			}
			env.peakOverride = pk
		}
	}
	for i, en := range ct.Ensures {
		if en.Tag == "C20" && !q.opts.Cost {
			continue
		}
		t, err := env.evalBool(en.Expr)
		if err != nil {
			if !ct.Default && !en.Inherited {
				q.note(fmt.Sprintf("contract of %s: ensures %d: %v", fnKey(callee), i, err))
			}
			continue
		}
		q.assume(fr.cur.reach, t)
	}
	for _, t := range accrued {
		st.v["$acc"] = "(+ " + q.get(st, "$acc") + " (ite (>= " + t + " 0) " + t + " 0))"
	}
	if pk != "" {
		// the caller's peak follows (when the callee works on the same object), and what the callee looked at beyond
		// its final cursor is added to the look-ahead total
		same := sEq(args[0].C[0], q.peakBase)
		hw := q.get(st, "$hw")
		st.v["$hw"] = fmt.Sprintf("(ite (and %s (> %s %s)) %s %s)", same, pk, hw, pk, hw)
		if !pkNoLook {
			st.v["$look"] = fmt.Sprintf("(+ %s (- %s %s))", q.get(st, "$look"), pk, calleePosAfter)
		}
	}
	if ct.OnUse != nil {
		ct.OnUse(fr, callee, args, res, pre)
	}
	return res
}

// ---------- inlining ----------

func (fr *Frame) inlineCall(ins ssa.Instruction, callee *ssa.Function, args, free []Val, rt types.Type) Val {
	q := fr.q
	child := newFrame(q, callee, fr)
	mcv := callCommonOf(ins).Value
	if fr.closureOverride != nil {
		mcv = fr.closureOverride
	}
	if mc, ok := mcv.(*ssa.MakeClosure); ok {
		for i, b := range mc.Bindings {
			if i < len(callee.FreeVars) {
				if r, ok := fr.resolveLocal(b); ok {
					child.freeLocal[callee.FreeVars[i]] = r
				}
			}
		}
	}
	child.run(args, free, fr.cur.st, fr.cur.reach)
	if len(child.unsupported) > 0 {
		fr.unsupported = append(fr.unsupported, child.unsupported...)
	}
	if len(child.rets) == 0 {
		fr.cur.reach = "false"
		return zeroVal(rt)
	}
	var conds []string
	var sts []*State
	for _, r := range child.rets {
		conds = append(conds, r.reach)
		sts = append(sts, r.st)
	}
	l := layoutOf(rt)
	res := Val{C: make([]string, len(l.leaves))}
	if len(child.rets) == 1 {
		k := 0
		for _, rv := range child.rets[0].results {
			for _, c := range rv.C {
				if k < len(res.C) {
					res.C[k] = c
				}
				k++
			}
		}
	} else {
		for i, lf := range l.leaves {
			res.C[i] = q.fresh(child.prefix+"_ret"+sanitize(lf.Path), lf.Sort)
		}
		for _, r := range child.rets {
			k := 0
			for _, rv := range r.results {
				for _, c := range rv.C {
					if k < len(res.C) {
						q.assume(r.reach, sEq(res.C[k], c))
					}
					k++
				}
			}
		}
	}
	nr := q.fresh(child.prefix+"_done", "Bool")
	q.assume("true", sEq(nr, sOr(conds...)))
	fr.cur.reach = nr
	fr.cur.st = q.merge(child.prefix+"r", conds, sts)
	return res
}

func callCommonOf(ins ssa.Instruction) *ssa.CallCommon {
	switch x := ins.(type) {
	case *ssa.Call:
		return &x.Call
	case *ssa.Defer:
		return &x.Call
	case *ssa.Go:
		return &x.Call
	}
	return &ssa.CallCommon{}
}

// ---------- defers ----------

func (fr *Frame) runDefers() {
	q := fr.q
	for i := len(fr.defers) - 1; i >= 0; i-- {
		d := fr.defers[i]
		c := &d.ins.Call
		args := make([]Val, len(c.Args))
		for k, a := range c.Args {
			args[k] = fr.val(a)
		}
		dom := d.ins.Block().Dominates(fr.curBlock)
		if dom {
			fr.doCall(d.ins, c, args, types.NewTuple())
			continue
		}
		pre := fr.cur.st.clone()
		outer := fr.cur.reach
		cond := q.fresh(fr.prefix+"_dfr", "Bool")
		q.assume("true", sEq(cond, sAnd(outer, d.flag)))
		ncond := q.fresh(fr.prefix+"_ndfr", "Bool")
		q.assume("true", sEq(ncond, sAnd(outer, sNot(d.flag))))
		fr.cur.reach = cond
		fr.doCall(d.ins, c, args, types.NewTuple())
		post := fr.cur.st
		postReach := fr.cur.reach
		fr.cur.st = q.merge(fr.prefix+"df", []string{postReach, ncond}, []*State{post, pre})
		nr := q.fresh(fr.prefix+"_adf", "Bool")
		q.assume("true", sEq(nr, sOr(postReach, ncond)))
		fr.cur.reach = nr
	}
}

// ---------- builtins ----------

func (fr *Frame) builtin(ins ssa.Instruction, b *ssa.Builtin, c *ssa.CallCommon, args []Val, rt types.Type) Val {
	q := fr.q
	st := fr.cur.st
	switch b.Name() {
	case "len":
		switch t := underlying(c.Args[0].Type()).(type) {
		case *types.Slice:
			return Val{C: []string{args[0].C[1]}}
		case *types.Basic:
			return Val{C: []string{"(slen " + args[0].C[0] + ")"}}
		case *types.Array:
			return Val{C: []string{sInt(t.Len())}}
		case *types.Pointer:
			if a, ok := underlying(t.Elem()).(*types.Array); ok {
				return Val{C: []string{sInt(a.Len())}}
			}
		case *types.Map:
			r := fr.uf("map_len", []string{args[0].C[0], sInt(int64(st.epoch))}, []string{"Int", "Int"}, "Int")
			r2 := q.fresh("maplen", "Int")
			_ = r
			q.assume("true", "(>= "+r2+" 0)")
			return Val{C: []string{r2}}
		}
		r := q.fresh("len", "Int")
		q.assume("true", "(>= "+r+" 0)")
		return Val{C: []string{r}}
	case "cap":
		if _, ok := underlying(c.Args[0].Type()).(*types.Slice); ok {
			return Val{C: []string{args[0].C[2]}}
		}
		r := q.fresh("cap", "Int")
		q.assume("true", "(>= "+r+" 0)")
		return Val{C: []string{r}}
	case "append":
		return fr.appendB(ins, c, args)
	case "copy":
		return fr.copyB(ins, c, args)
	case "recover":
		return Val{C: []string{"0", "0"}}
	case "delete":
		fr.mapDelete(c, args)
		return Val{}
	case "print", "println":
		return Val{}
	case "min", "max":
		if len(args) == 2 && len(args[0].C) == 1 && layoutOf(rt).leaves[0].Sort == "Int" {
			a, bb := args[0].C[0], args[1].C[0]
			if b.Name() == "min" {
				return Val{C: []string{sIte("(<= "+a+" "+bb+")", a, bb)}}
			}
			return Val{C: []string{sIte("(>= "+a+" "+bb+")", a, bb)}}
		}
	case "clear":
		fr.havocMod(st, &ModSet{All: true})
		return Val{}
	}
	q.note("unmodelled builtin " + b.Name())
	return fr.freshVal(fr.prefix+"_bi_"+b.Name(), rt, fr.cur.reach, st)
}

func (fr *Frame) appendB(ins ssa.Instruction, c *ssa.CallCommon, args []Val) Val {
	q := fr.q
	st := fr.cur.st
	sl, ok := underlying(c.Args[0].Type()).(*types.Slice)
	if !ok {
		return fr.freshVal("app", c.Args[0].Type(), fr.cur.reach, st)
	}
	el := sl.Elem()
	k := cellsOf(el)
	s := args[0]
	var tp, tl string
	srcIsString := false
	if b, ok := underlying(c.Args[1].Type()).(*types.Basic); ok && b.Info()&types.IsString != 0 {
		srcIsString = true
		tp = args[1].C[0]
		tl = "(slen " + tp + ")"
	} else {
		tp, tl = args[1].C[0], args[1].C[1]
	}
	sp, sln, sc := s.C[0], s.C[1], s.C[2]
	newlen := q.fresh(fr.prefix+"_alen", "Int")
	q.assume("true", sEq(newlen, sAdd(sln, tl)))
	inplace := q.fresh(fr.prefix+"_inpl", "Bool")
	q.assume("true", sEq(inplace, "(<= "+newlen+" "+sc+")"))
	np := q.fresh(fr.prefix+"_aptr", "Int")
	nc := q.fresh(fr.prefix+"_acap", "Int")
	top := q.get(st, "$top")
	q.assume(fr.cur.reach, fmt.Sprintf("(ite %s (and (= %s %s) (= %s %s)) (and (= %s %s) (>= %s %s)))", inplace, np, sp, nc, sc, np, top, nc, newlen))
	nt := q.fresh("top", "Int")
	q.assume("true", sEq(nt, sIte(inplace, top, fmt.Sprintf("(+ %s %s 1)", top, sMulC(nc, k)))))
	st.v["$top"] = nt
	if q.opts == nil || !q.optsNoContents() {
		for _, lf := range layoutOf(el).leaves {
			famLeafSort[lf.Arr] = lf.Sort
			old := q.get(st, lf.Arr)
			na := q.fresh(smtSym(lf.Arr)+"@ap", famSort(q, lf.Arr))
			var src string
			dstLo := sAdd(np, sMulC(sln, k))
			if srcIsString {
				src = fmt.Sprintf("(sat %s (- i %s))", tp, dstLo)
			} else {
				src = fmt.Sprintf("(select %s (+ %s (- i %s)))", old, tp, dstLo)
			}
			q.assume(fr.cur.reach, fmt.Sprintf("(forall ((i Int)) (! (= (select %s i) (ite (and (<= %s i) (< i (+ %s %s))) %s (ite (and (not %s) (<= %s i) (< i %s)) (select %s (+ %s (- i %s))) (select %s i)))) :pattern ((select %s i))))",
				na, dstLo, np, sMulC(newlen, k), src, inplace, np, dstLo, old, sp, np, old, na))
			st.v[lf.Arr] = na
		}
	} else {
		for _, lf := range layoutOf(el).leaves {
			famLeafSort[lf.Arr] = lf.Sort
			st.v[lf.Arr] = q.fresh(smtSym(lf.Arr)+"@ap", famSort(q, lf.Arr))
		}
	}
	return Val{C: []string{np, newlen, nc}}
}

func (q *Query) optsNoContents() bool { return q.opts != nil && q.opts.NoContents }

func (fr *Frame) copyB(ins ssa.Instruction, c *ssa.CallCommon, args []Val) Val {
	q := fr.q
	st := fr.cur.st
	sl, ok := underlying(c.Args[0].Type()).(*types.Slice)
	if !ok {
		fr.havocMod(st, &ModSet{All: true})
		return fr.freshVal("copy", types.Typ[types.Int], fr.cur.reach, st)
	}
	el := sl.Elem()
	k := cellsOf(el)
	dp, dl := args[0].C[0], args[0].C[1]
	var spt, sln string
	srcIsString := false
	if b, ok := underlying(c.Args[1].Type()).(*types.Basic); ok && b.Info()&types.IsString != 0 {
		srcIsString = true
		spt = args[1].C[0]
		sln = "(slen " + spt + ")"
	} else {
		spt, sln = args[1].C[0], args[1].C[1]
	}
	n := q.fresh(fr.prefix+"_cpn", "Int")
	q.assume("true", sEq(n, sIte("(<= "+dl+" "+sln+")", dl, sln)))
	for _, lf := range layoutOf(el).leaves {
		famLeafSort[lf.Arr] = lf.Sort
		old := q.get(st, lf.Arr)
		na := q.fresh(smtSym(lf.Arr)+"@cp", famSort(q, lf.Arr))
		var src string
		if srcIsString {
			src = fmt.Sprintf("(sat %s (- i %s))", spt, dp)
		} else {
			src = fmt.Sprintf("(select %s (+ %s (- i %s)))", old, spt, dp)
		}
		if !q.optsNoContents() {
			q.assume(fr.cur.reach, fmt.Sprintf("(forall ((i Int)) (! (= (select %s i) (ite (and (<= %s i) (< i (+ %s %s))) %s (select %s i))) :pattern ((select %s i))))",
				na, dp, dp, sMulC(n, k), src, old, na))
		}
		st.v[lf.Arr] = na
	}
	return Val{C: []string{n}}
}

// ---------- maps (abstract: per map type, content = state family indexed by map ref then key) ----------

func mapFams(mt *types.Map) (has string, vals []string, ksort string, ok bool) {
	kl := layoutOf(mt.Key())
	if len(kl.leaves) != 1 {
		return "", nil, "", false
	}
	ksort = kl.leaves[0].Sort
	name := shortType(mt)
	has = "M|" + name + "|has"
	famLeafSort[has] = "(Array " + ksort + " Bool)"
	for _, lf := range layoutOf(mt.Elem()).leaves {
		f := "M|" + name + "|v" + lf.Path
		famLeafSort[f] = "(Array " + ksort + " " + lf.Sort + ")"
		vals = append(vals, f)
	}
	return has, vals, ksort, true
}

func (fr *Frame) mapLookup(x *ssa.Lookup, base Val) {
	q := fr.q
	st := fr.cur.st
	mt := underlying(x.X.Type()).(*types.Map)
	if kb, isB := underlying(mt.Key()).(*types.Basic); isB && kb.Info()&types.IsString != 0 {
		fr.tick("(slen " + fr.val(x.Index).C[0] + ")") // hashing / comparing the key
	}
	has, vfs, _, ok := mapFams(mt)
	if !ok {
		fr.vals[x] = fr.freshVal(fr.sym(x), x.Type(), fr.cur.reach, st)
		return
	}
	m := base.C[0]
	key := fr.val(x.Index).C[0]
	present := sAnd("(not (= "+m+" 0))", fmt.Sprintf("(select (select %s %s) %s)", q.get(st, has), m, key))
	out := Val{}
	el := layoutOf(mt.Elem())
	for i, f := range vfs {
		out.C = append(out.C, sIte(present, fmt.Sprintf("(select (select %s %s) %s)", q.get(st, f), m, key), zeroOf(el.leaves[i].Sort)))
	}
	if x.CommaOk {
		out.C = append(out.C, present)
	}
	fr.setVal(x, out)
	fr.typeInv(Val{C: fr.vals[x].C[:len(vfs)]}, mt.Elem(), fr.cur.reach, st)
	if q.opts.OnMapLookup != nil {
		q.opts.OnMapLookup(fr, x, fr.vals[x])
	}
}

func (fr *Frame) mapUpdate(x *ssa.MapUpdate) {
	if fr.q.opts.OnMapUpdate != nil {
		fr.q.opts.OnMapUpdate(fr, x)
	}
	st := fr.cur.st
	mt := underlying(x.Map.Type()).(*types.Map)
	m := fr.val(x.Map).C[0]
	fr.safety("nil", "map "+describe(x.Map), x.Pos(), "(not (= "+m+" 0))")
	has, vfs, _, ok := mapFams(mt)
	if !ok {
		return
	}
	key := fr.val(x.Key).C[0]
	v := fr.val(x.Value)
	h := fr.named(st, has)
	st.v[has] = fmt.Sprintf("(store %s %s (store (select %s %s) %s true))", h, m, h, m, key)
	for i, f := range vfs {
		a := fr.named(st, f)
		st.v[f] = fmt.Sprintf("(store %s %s (store (select %s %s) %s %s))", a, m, a, m, key, v.C[i])
	}
}

func (fr *Frame) mapDelete(c *ssa.CallCommon, args []Val) {
	st := fr.cur.st
	mt, ok := underlying(c.Args[0].Type()).(*types.Map)
	if !ok {
		return
	}
	has, _, _, ok := mapFams(mt)
	if !ok {
		return
	}
	m, key := args[0].C[0], args[1].C[0]
	h := fr.named(st, has)
	st.v[has] = fmt.Sprintf("(store %s %s (store (select %s %s) %s false))", h, m, h, m, key)
}

// named: the current term of a family, bound to a constant if it is not already atomic (avoids term duplication)
func (fr *Frame) named(st *State, fam string) string {
	t := fr.q.get(st, fam)
	if !strings.ContainsAny(t, " (") {
		return t
	}
	n := fr.q.fresh(smtSym(fam)+"@n", famSort(fr.q, fam))
	fr.q.assume("true", sEq(n, t))
	st.v[fam] = n
	return n
}

func (fr *Frame) mapInit(mm *ssa.MakeMap, a string) {
	// a fresh map is empty
	q := fr.q
	st := fr.cur.st
	mt := underlying(mm.Type()).(*types.Map)
	has, _, ksort, ok := mapFams(mt)
	if !ok {
		return
	}
	h := q.get(st, has)
	st.v[has] = fmt.Sprintf("(store %s %s ((as const (Array %s Bool)) false))", h, a, ksort)
}

func (fr *Frame) globalFacts(g *ssa.Global, v Val) {
	if f := fr.q.eng.globalFactHook; f != nil {
		f(fr, g, v)
	}
}

// ---------- loops ----------

func (fr *Frame) loopModSet(li *loopInfo) *ModSet {
	e := fr.q.eng
	ms := &ModSet{Arrs: map[string]bool{}}
	for b := range li.blocks {
		for _, ins := range b.Instrs {
			switch x := ins.(type) {
			case *ssa.Store:
				if pt, ok := underlying(x.Addr.Type()).(*types.Pointer); ok {
					for _, a := range e.placeArrays(x.Addr, pt.Elem()) {
						ms.Arrs[a] = true
					}
				}
			case *ssa.Alloc, *ssa.MakeSlice, *ssa.MakeInterface, *ssa.MakeMap, *ssa.MakeClosure, *ssa.MakeChan:
				ms.Alloc = true
				if a, ok := x.(*ssa.Alloc); ok {
					for _, f := range storeArrays(a.Type().(*types.Pointer).Elem()) {
						ms.Arrs[f] = true
					}
				}
				if mi, ok := x.(*ssa.MakeInterface); ok && payloadKind(mi.X.Type()) == "box" {
					for _, f := range storeArrays(mi.X.Type()) {
						ms.Arrs[f] = true
					}
				}
				if mk, ok := x.(*ssa.MakeSlice); ok {
					for _, f := range storeArrays(underlying(mk.Type()).(*types.Slice).Elem()) {
						ms.Arrs[f] = true
					}
				}
			case *ssa.Convert:
				ms.Alloc = true
				if sl, ok := underlying(x.Type()).(*types.Slice); ok {
					for _, f := range storeArrays(sl.Elem()) {
						ms.Arrs[f] = true
					}
				}
			case *ssa.MapUpdate:
				if mt, ok := underlying(x.Map.Type()).(*types.Map); ok {
					if has, vfs, _, ok := mapFams(mt); ok {
						ms.Arrs[has] = true
						for _, f := range vfs {
							ms.Arrs[f] = true
						}
					}
				}
			case *ssa.Go, *ssa.Select, *ssa.Send:
				ms.All = true
			case ssa.CallInstruction:
				c := x.Common()
				if c.IsInvoke() {
					if im := intrinsicInvokeMod(c); im != nil {
						ms.add(im)
					} else {
						ms.add(fr.invokeModSet(c))
					}
					continue
				}
				switch cv := c.Value.(type) {
				case *ssa.Function:
					if ct := e.contractFor(cv, fr.q.opts); ct != nil && ct.Modifies != nil {
						ms.add(ct.Modifies)
					} else if m := e.modsets[cv]; m != nil {
						ms.add(m)
					} else {
						ms.All = true
					}
				case *ssa.MakeClosure:
					if m := e.modsets[cv.Fn.(*ssa.Function)]; m != nil {
						ms.add(m)
					} else {
						ms.All = true
					}
				case *ssa.Builtin:
					if cv.Name() == "append" || cv.Name() == "copy" {
						if st, ok := underlying(c.Args[0].Type()).(*types.Slice); ok {
							for _, a := range storeArrays(st.Elem()) {
								ms.Arrs[a] = true
							}
						}
						ms.Alloc = true
					}
					if cv.Name() == "delete" {
						if mt, ok := underlying(c.Args[0].Type()).(*types.Map); ok {
							if has, _, _, ok := mapFams(mt); ok {
								ms.Arrs[has] = true
							}
						}
					}
					if cv.Name() == "clear" {
						ms.All = true
					}
				default:
					ms.All = true
				}
			}
		}
	}
	return ms
}

func (fr *Frame) loopHeaderState(li *loopInfo, in *State) *State {
	hs := in.clone()
	ms := fr.loopModSet(li)
	// local cells that the loop body does not store to directly keep their contents
	stored := map[*ssa.Alloc]bool{}
	storedKeys := map[string]bool{} // scalar-replaced locals of an enclosing function, reached through a captured variable
	var mark func(v ssa.Value)
	mark = func(v ssa.Value) {
		switch x := v.(type) {
		case *ssa.FreeVar:
			for f := fr; f != nil; f = f.parent {
				if r, ok := f.freeLocal[x]; ok {
					storedKeys[r.key] = true
				}
			}
		case *ssa.Alloc:
			stored[x] = true
		case *ssa.FieldAddr:
			mark(x.X)
		case *ssa.IndexAddr:
			mark(x.X)
		}
	}
	for b := range li.blocks {
		for _, ins := range b.Instrs {
			switch x := ins.(type) {
			case *ssa.Store:
				mark(x.Addr)
			case ssa.CallInstruction:
				// closures called/deferred in the loop may store to captured cells
				if mc, ok := x.Common().Value.(*ssa.MakeClosure); ok {
					for _, bnd := range mc.Bindings {
						mark(bnd)
					}
				}
			}
		}
	}
	restore := fr.snapshotLocalsFor(hs, func(a *ssa.Alloc) bool { return stored[a] || li.blocks[a.Block()] }, ms)
	fr.havocMod0(hs, ms)
	restore(hs)
	// scalar-replaced locals assigned in the loop get fresh values at the header
	for f := fr; f != nil; f = f.parent {
		for a, key := range f.localKey {
			if !stored[a] && !storedKeys[key] {
				continue
			}
			keys, sorts := fr.localLeafKeys(localRef{key: key}, a.Type().(*types.Pointer).Elem())
			for i, k := range keys {
				if _, ok := hs.v[k]; ok {
					hs.v[k] = fr.q.fresh(fr.prefix+"_lh", sorts[i])
				}
			}
		}
	}
	// ghost scalars may change in loops too
	for k := range hs.v {
		if strings.HasPrefix(k, "$") && k != "$top" && ghostLoopHavoc[k] {
			hs.v[k] = fr.q.fresh(smtSym(k)+"@h", famSort(fr.q, k))
		}
	}
	li.spec = fr.loopSpecFor(li)
	return hs
}

var ghostLoopHavoc = map[string]bool{"$ticks": true, "$hw": true, "$look": true, "$acc": true}

func (fr *Frame) loopSpecFor(li *loopInfo) *LoopSpec {
	ct := fr.contract
	if fr.parent != nil {
		// an inlined closure or helper: its own written contract (loop clauses only) applies to its loops
		ct = fr.q.eng.Contracts[fnKey(fr.fn)]
		if ct == nil {
			return nil
		}
		if w := ct.Loops[li.ordinal]; w != nil {
			return &LoopSpec{Invariants: append([]Clause(nil), w.Invariants...), Decreases: w.Decreases}
		}
		return nil
	}
	if ct == nil {
		return nil
	}
	ls := &LoopSpec{}
	if w := ct.Loops[li.ordinal]; w != nil {
		ls.Invariants = append(ls.Invariants, w.Invariants...)
		ls.Decreases = w.Decreases
	}
	// Houdini candidates derived from the contract itself (DESIGN 1.3 "loops"): every requires clause, every
	// result-free ensures clause, and the latter with old() read as pre() (= the state at loop entry).
	cands := autoCandidates(ct)
	if w := ct.Loops[-1]; w != nil {
		cands = append(append([]Clause(nil), cands...), w.Invariants...)
	}
	for _, c := range cands {
		key := fmt.Sprintf("%d:%s", li.ordinal, c.Text)
		if fr.autoDrop[key] {
			continue
		}
		c.Auto = true
		ls.Invariants = append(ls.Invariants, c)
	}
	if !fr.q.opts.Cost {
		// clauses about the step counter exist only in cost mode
		kept := ls.Invariants[:0:0]
		for _, c := range ls.Invariants {
			if c.Tag != "C20" {
				kept = append(kept, c)
			}
		}
		ls.Invariants = kept
	}
	if len(ls.Invariants) == 0 && ls.Decreases == nil {
		return nil
	}
	return ls
}

var autoCandCache = map[*Contract][]Clause{}

func autoCandidates(ct *Contract) []Clause {
	if c, ok := autoCandCache[ct]; ok {
		return c
	}
	var out []Clause
	seen := map[string]bool{}
	curTag := ""
	var add func(txt string)
	add = func(txt string) {
		c, err := parseClause(txt)
		if err != nil {
			return
		}
		c.Tag = curTag
		// split top-level conjunctions: each conjunct is its own candidate
		if be, ok := c.Expr.(*ast.BinaryExpr); ok && be.Op == token.LAND {
			add(exprString(be.X))
			add(exprString(be.Y))
			return
		}
		if pe, ok := c.Expr.(*ast.ParenExpr); ok {
			add(exprString(pe.X))
			return
		}
		if seen[c.Text] {
			return
		}
		seen[c.Text] = true
		out = append(out, c)
	}
	for _, r := range ct.Requires {
		curTag = r.Tag
		add(r.Src)
	}
	for _, e := range ct.Ensures {
		if mentionsResult(e.Expr) {
			continue
		}
		curTag = e.Tag
		add(e.Src)
		if strings.Contains(e.Src, "old(") {
			add(strings.ReplaceAll(e.Src, "old(", "pre("))
		}
	}
	autoCandCache[ct] = out
	return out
}

func mentionsResult(e ast.Expr) bool {
	found := false
	ast.Inspect(e, func(n ast.Node) bool {
		if id, ok := n.(*ast.Ident); ok {
			if id.Name == "err" || strings.HasPrefix(id.Name, "result") {
				found = true
			}
		}
		return true
	})
	return found
}

func (fr *Frame) invEnv(li *loopInfo, st *State, phiOverride map[*ssa.Phi]Val) *SpecEnv {
	env := newSpecEnv(fr, fr.fn)
	env.st = st
	env.old = fr.entry
	env.pre = li.inState
	env.bindParams(fr.fn, fr.params)
	for phi, v := range li.phiVals {
		if phi.Comment == "" {
			continue
		}
		if ov, ok := phiOverride[phi]; ok {
			v = ov
		}
		env.names[phi.Comment] = SV{T: phi.Type(), V: v}
	}
	env.loop = li
	return env
}

func (fr *Frame) loopEntryObligations(li *loopInfo, conds []string, sts []*State, idx []int) {
	if li.spec == nil {
		return
	}
	q := fr.q
	for k := range conds {
		ov := map[*ssa.Phi]Val{}
		for phi := range li.phiVals {
			ov[phi] = fr.val(phi.Edges[idx[k]])
		}
		env := fr.invEnv(li, sts[k], ov)
		env.pre = sts[k]
		for i, inv := range li.spec.Invariants {
			if !inv.Auto && !q.opts.checksTag(inv.Tag) {
				continue // checked by the run of the property group that owns the clause; assumed here
			}
			t, err := env.evalBool(inv.Expr)
			if err != nil {
				q.note(fmt.Sprintf("%s loop %d invariant %d: %v", fnKey(fr.fn), li.ordinal, i, err))
				q.staleIf(inv, err, fmt.Sprintf("loop %d of %s", li.ordinal, fnKey(fr.fn)))
				continue
			}
			o := q.addObligation(fr, "inv-init", fmt.Sprintf("loop%d:%s", li.ordinal, inv.Text), blockPos(li.header), conds[k], t)
			if inv.Auto {
				o.Tag = fmt.Sprintf("auto:%d:%s", li.ordinal, inv.Text)
			}
		}
	}
}

func (fr *Frame) assumeLoopInvariant(li *loopInfo, reach string, st *State) {
	if li.spec == nil {
		return
	}
	q := fr.q
	env := fr.invEnv(li, st, nil)
	for i, inv := range li.spec.Invariants {
		t, err := env.evalBool(inv.Expr)
		if err != nil {
			q.note(fmt.Sprintf("%s loop %d invariant %d: %v", fnKey(fr.fn), li.ordinal, i, err))
			q.staleIf(inv, err, fmt.Sprintf("loop %d of %s", li.ordinal, fnKey(fr.fn)))
			continue
		}
		q.assume(reach, t)
	}
	if li.spec.Decreases != nil {
		t, err := env.evalInt(li.spec.Decreases.Expr)
		if err == nil {
			d := q.fresh(fmt.Sprintf("%s_dec%d", fr.prefix, li.ordinal), "Int")
			q.assume("true", sEq(d, t))
			li.decAtHeader = d
		} else {
			q.note(fmt.Sprintf("%s loop %d decreases: %v", fnKey(fr.fn), li.ordinal, err))
		}
	}
}

func (fr *Frame) loopBackObligations(li *loopInfo) {
	if li.spec == nil {
		return
	}
	q := fr.q
	conds, sts, idx := fr.predFlows(li.header, true)
	for k := range conds {
		ov := map[*ssa.Phi]Val{}
		for phi := range li.phiVals {
			ov[phi] = fr.val(phi.Edges[idx[k]])
		}
		env := fr.invEnv(li, sts[k], ov)
		for i, inv := range li.spec.Invariants {
			if !inv.Auto && !q.opts.checksTag(inv.Tag) {
				continue
			}
			t, err := env.evalBool(inv.Expr)
			if err != nil {
				q.note(fmt.Sprintf("%s loop %d invariant %d: %v", fnKey(fr.fn), li.ordinal, i, err))
				q.staleIf(inv, err, fmt.Sprintf("loop %d of %s", li.ordinal, fnKey(fr.fn)))
				continue
			}
			o := q.addObligation(fr, "inv-pres", fmt.Sprintf("loop%d:%s", li.ordinal, inv.Text), blockPos(li.header), conds[k], t)
			if inv.Auto {
				o.Tag = fmt.Sprintf("auto:%d:%s", li.ordinal, inv.Text)
			}
		}
		if li.spec.Decreases != nil && li.decAtHeader != "" {
			t, err := env.evalInt(li.spec.Decreases.Expr)
			if err == nil {
				q.addObligation(fr, "dec", fmt.Sprintf("loop%d:%s", li.ordinal, li.spec.Decreases.Text), blockPos(li.header), conds[k],
					fmt.Sprintf("(and (<= 0 %s) (< %s %s))", li.decAtHeader, t, li.decAtHeader))
			}
		}
	}
}

// ---------- cost accounting (C20) ----------

func (ct *Contract) hasCost() bool {
	for _, e := range ct.Ensures {
		if e.Tag == "C20" {
			return true
		}
	}
	return false
}

// hasCostClause: a cost postcondition, or a loop invariant about cost (functions whose total cost depends on callees
// without cost contracts can still bound what their own loops add)
func (ct *Contract) hasCostClause() bool {
	if ct.hasCost() {
		return true
	}
	for k, l := range ct.Loops {
		if k < 0 {
			continue
		}
		for _, inv := range l.Invariants {
			if inv.Tag == "C20" {
				return true
			}
		}
	}
	return false
}

func argLen(v Val, t types.Type) string {
	switch u := underlying(t).(type) {
	case *types.Basic:
		if u.Info()&types.IsString != 0 && len(v.C) >= 1 {
			return "(slen " + v.C[0] + ")"
		}
	case *types.Slice:
		if len(v.C) >= 2 {
			return v.C[1]
		}
	}
	return ""
}

// callCost: the assumed number of steps of a call whose body the generator does not execute. Returns false when the
// call was executed in place or under a contract that states its cost (the ticks are then already accounted for), or
// when nothing may be assumed (same-package function without a cost contract, function value).
func (fr *Frame) callCost(mode string, c *ssa.CallCommon, args []Val, res Val) (string, bool) {
	q := fr.q
	switch mode {
	case "inline", "modular", "":
		return "", false
	case "builtin":
		b := c.Value.(*ssa.Builtin)
		switch b.Name() {
		case "append":
			if len(c.Args) == 2 {
				if l := argLen(args[1], c.Args[1].Type()); l != "" {
					return l, true // amortised: growth is geometric
				}
			}
			return "0", true
		case "copy":
			if len(res.C) == 1 {
				return res.C[0], true
			}
		}
		return "0", true
	}
	callee := c.StaticCallee()
	name := ""
	sameModule := false
	samePkg := false
	if callee != nil {
		name = callee.String()
		if callee.Pkg != nil {
			sameModule = strings.HasPrefix(callee.Pkg.Pkg.Path(), modPath)
			samePkg = callee.Pkg == fr.root().fn.Pkg
		}
	} else if c.IsInvoke() {
		name = c.Value.Type().String() + "." + c.Method.Name()
		if n, ok := c.Value.Type().(*types.Named); ok && n.Obj().Pkg() != nil {
			sameModule = strings.HasPrefix(n.Obj().Pkg().Path(), modPath)
		}
	} else {
		return "", false // function value
	}
	if mode == "opaque" && samePkg {
		return "", false // must carry a cost contract of its own
	}
	// lengths of the string / slice arguments (receiver included)
	var lens []string
	sig := c.Signature()
	var ats []types.Type
	if callee != nil {
		for _, p := range callee.Params {
			ats = append(ats, p.Type())
		}
	} else {
		ats = append(ats, c.Value.Type())
		for i := 0; i < sig.Params().Len(); i++ {
			ats = append(ats, sig.Params().At(i).Type())
		}
		ats = ats[1:]
	}
	for i, a := range args {
		if i < len(ats) {
			if l := argLen(a, ats[i]); l != "" {
				lens = append(lens, l)
			}
		}
	}
	sum := "1"
	if len(lens) > 0 {
		sum = "(+ 1 " + strings.Join(lens, " ") + ")"
	}
	switch name {
	case "strings.Index", "bytes.Index", "strings.IndexByte", "bytes.IndexByte", "strings.IndexRune", "strings.IndexAny":
		// found at r: r + len(sep) steps; not found: the whole haystack
		if len(res.C) == 1 && len(lens) >= 1 {
			sep := "1"
			if len(lens) >= 2 {
				sep = lens[1]
			}
			return fmt.Sprintf("(+ 1 (ite (>= %s 0) (+ %s %s) %s))", res.C[0], res.C[0], sep, lens[0]), true
		}
	case "(*regexp.Regexp).FindStringIndex", "(*regexp.Regexp).FindIndex":
		// leftmost match: the automaton reads up to the end of the match, or the whole text when there is none (RE2: linear)
		if len(res.C) == 3 && len(lens) >= 1 {
			lf := layoutOf(types.Typ[types.Int]).leaves[0]
			arr := q.get(fr.cur.st, lf.Arr)
			q.costAssumed["regexp Find*Index: cost = end of the leftmost match, or the text length when nothing matches (RE2 matching is linear and stops at the leftmost match)"] = true
			return fmt.Sprintf("(+ 1 (ite (= %s 0) %s (select %s (+ %s 1))))", res.C[0], lens[len(lens)-1], arr, res.C[0]), true
		}
	case "strings.Join":
		// one pass over the result
		if len(res.C) == 1 {
			return "(+ 1 (slen " + res.C[0] + "))", true
		}
	case "(*strings.Builder).String", "(*strings.Builder).Len", "(*strings.Builder).Reset", "(*strings.Builder).Grow", "(*strings.Builder).WriteByte", "(*strings.Builder).WriteRune":
		return "1", true // amortised: growth is geometric; String() does not copy
	case "sort.Search", "sort.SearchInts", "sort.SearchStrings":
		q.costAssumed["sort.Search*: at most 64 probes (binary search over an int-indexed range)"] = true
		return "64", true
	case "strings.HasPrefix", "bytes.HasPrefix", "strings.HasSuffix", "bytes.HasSuffix":
		if len(lens) >= 2 {
			return "(+ 1 " + lens[1] + ")", true
		}
	case "unicode/utf8.DecodeRune", "unicode/utf8.DecodeRuneInString", "unicode/utf8.DecodeLastRune", "unicode/utf8.RuneLen", "unicode/utf8.EncodeRune", "unicode/utf8.AppendRune", "unicode/utf8.ValidRune", "unicode/utf8.RuneStart", "unicode/utf8.FullRune":
		return "0", true // constant time: not counted
	}
	if strings.HasPrefix(name, "unicode.") {
		return "0", true
	}
	if strings.HasPrefix(name, "fmt.Sprint") || strings.HasPrefix(name, "fmt.Errorf") {
		// the rendered text is linear in the format and the string operands (operands here are strings, integers, runes)
		if len(res.C) >= 1 {
			q.costAssumed["fmt.Sprintf/Errorf: cost linear in the format, its string operands and 32 per operand"] = true
		}
		return sum, true
	}
	kind := "library"
	if sameModule {
		kind = "repository function outside the package under contract"
		if mode == "invoke" {
			kind = "repository interface method"
		}
	}
	q.costAssumed["assumed linear in its string/slice arguments ("+kind+"): "+name] = true
	return sum, true
}

// evalClosureAt: the value a closure literal returns for the given arguments in the current state, under an extra
// guard (used to instantiate the predicate handed to sort.Search at the two indices that characterise its result).
// The state is left untouched; obligations of the closure body are emitted under the guard.
func (fr *Frame) evalClosureAt(ins ssa.Instruction, mc *ssa.MakeClosure, args []Val, guard string) (Val, bool) {
	callee, ok := mc.Fn.(*ssa.Function)
	if !ok || len(callee.Blocks) == 0 || fr.depth > 3 {
		return Val{}, false
	}
	var free []Val
	for _, b := range mc.Bindings {
		free = append(free, fr.val(b))
	}
	saved := fr.cur
	fr.cur = flow{reach: sAnd(saved.reach, guard), st: saved.st.clone()}
	fr.closureOverride = mc
	v := fr.inlineCall(ins, callee, args, free, callee.Signature.Results().At(0).Type())
	fr.closureOverride = nil
	okr := fr.cur.reach != "false"
	fr.cur = saved
	return v, okr
}

// cursorOf: family and cell offset of the declared cursor field of fn's pointer receiver
func (e *Engine) cursorOf(fn *ssa.Function) (fam string, off int, ok bool) {
	if fn == nil || fn.Signature.Recv() == nil || len(fn.Params) == 0 || e.Cursors == nil {
		return "", 0, false
	}
	pt, isP := underlying(fn.Params[0].Type()).(*types.Pointer)
	if !isP {
		return "", 0, false
	}
	path, has := e.Cursors[typeID(pt.Elem())]
	if !has {
		return "", 0, false
	}
	for _, lf := range layoutOf(pt.Elem()).leaves {
		if lf.Path == path {
			famLeafSort[lf.Arr] = lf.Sort
			return lf.Arr, lf.Off, true
		}
	}
	return "", 0, false
}

func (q *Query) peakAddrBase() string { return q.peakBase }

func (ct *Contract) mentionsPeak() bool {
	for _, e := range ct.Ensures {
		if strings.Contains(e.Src, "peak(") {
			return true
		}
	}
	return false
}

// loopFree: no back edge and no defer (size does not matter)
func loopFree(fn *ssa.Function) bool {
	if fn.Blocks == nil {
		return false
	}
	for _, b := range fn.Blocks {
		for _, s := range b.Succs {
			if s.Dominates(b) {
				return false
			}
		}
		for _, ins := range b.Instrs {
			if _, isDefer := ins.(*ssa.Defer); isDefer {
				return false
			}
		}
	}
	return true
}

// staleIf: a written (not inferred) clause that cannot be evaluated because it names something the code no longer has
// (a renamed or removed local): the contract is stale, which is not the same as violated
func (q *Query) staleIf(c Clause, err error, where string) {
	if c.Auto || err == nil || !strings.Contains(err.Error(), "unknown name") {
		return
	}
	if q.stale == nil {
		q.stale = map[string]bool{}
	}
	q.stale[where+": "+c.Text+" ("+err.Error()+")"] = true
}
