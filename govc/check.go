package main

func cmdCheck(args []string) int { return 2 }
