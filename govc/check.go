package main

// govc check <id> [--tier quick|thorough]: decide one property on the current /repo tree.

import (
	"go/types"

	"crypto/sha1"
	"encoding/json"
	"flag"
	"fmt"
	"golang.org/x/tools/go/ssa"
	"os"
	"path/filepath"
	"sort"
	"strconv"
	"strings"
	"sync"
	"time"
)

type PropRun struct {
	ID          string
	Results     []*FnResult
	FUC         []string // functions under contract
	Abstracted  []string // callees seen only through havoc / assumed contracts
	Assumptions []string
	NotCovered  []string
	Explanation string
	Level       string           // evidence level: proof | other
	Bounded     []map[string]any // bounded stand-ins (never counted as proved)
	Extra       map[string]any
	// custom replay synthesiser: returns (goTestSource, pkgDir, testName) or "" if none
	Replay func(o *Obligation, r *FnResult) *ReplaySpec
	// Claim: which generated obligations belong to this property (nil = all); the others are decided by the
	// check of the property that owns the contract clause and are dropped here.
	Claim func(o *Obligation) bool
	// PostDischarge: derive further (synthetic, already decided) obligations from the answers
	PostDischarge func()
}

type ReplaySpec struct {
	PkgDir      string // package directory relative to the repo root, e.g. pkg/lsp
	TestName    string
	Source      string // complete _test.go source (package clause included)
	Expect      string // "panic" | "fail": what demonstrates the violation
	MustContain string // text that must occur in the output for the failure to count (the obligation's file:line)
}

type propDriver struct {
	ID    string
	Title string
	Run   func(e *Engine, tier Tier) *PropRun
}

var drivers = map[string]*propDriver{}

func register(d *propDriver) { drivers[d.ID] = d }

type knownFinding struct {
	Property   string `json:"property"`
	Obligation string `json:"obligation"`
	Witness    string `json:"witness"`
	Why        string `json:"why_not_fixed"`
}

type knownFile struct {
	Findings []knownFinding `json:"findings"`
	Fixed    []string       `json:"fixed"`
}

func verifDir() string {
	if d := os.Getenv("VERIF_DIR"); d != "" {
		return d
	}
	exe, err := os.Executable()
	if err == nil {
		d := filepath.Dir(filepath.Dir(exe))
		if _, err := os.Stat(filepath.Join(d, "properties.jsonl")); err == nil {
			return d
		}
	}
	return "/verif"
}

// outDir: where evidence and replays are written (/verif unless redirected for experiments on scratch trees)
func outDir() string {
	if d := os.Getenv("VERIF_OUT_DIR"); d != "" {
		return d
	}
	return verifDir()
}

func loadKnown() *knownFile {
	k := &knownFile{}
	b, err := os.ReadFile(filepath.Join(verifDir(), "known_findings.json"))
	if err == nil {
		json.Unmarshal(b, k)
	}
	return k
}

type baselineFile struct {
	Property    string   `json:"property"`
	Functions   []string `json:"functions"`
	Obligations []string `json:"obligations"`
	Undecided   []string `json:"undecided_on_unchanged_tree"`
}

func loadBaseline(id string) (map[string]bool, map[string]bool) {
	m, u := map[string]bool{}, map[string]bool{}
	b, err := os.ReadFile(filepath.Join(verifDir(), "baseline", id+".json"))
	if err != nil {
		return m, u
	}
	var bf baselineFile
	json.Unmarshal(b, &bf)
	for _, o := range bf.Obligations {
		m[o] = true
	}
	for _, o := range bf.Undecided {
		u[o] = true
	}
	return m, u
}

// accepted.json: contract-kind obligations that are undecided on the unchanged tree because the proof is out of the
// engine's reach (not because the code is wrong); each entry is a name substring with the reason. They are listed in
// evidence and never claimed. Genuine defects go to known_findings.json instead.
type acceptedEntry struct {
	Match  string `json:"match"`
	Reason string `json:"reason"`
}

var acceptedCache map[string][]acceptedEntry
var acceptedOnce sync.Once

func acceptedIncomplete(id, name string) bool {
	// called from the solver goroutines: load once
	acceptedOnce.Do(func() {
		c := map[string][]acceptedEntry{}
		if b, err := os.ReadFile(filepath.Join(verifDir(), "baseline", "accepted.json")); err == nil {
			json.Unmarshal(b, &c)
		}
		acceptedCache = c
	})
	for _, a := range acceptedCache[id] {
		if strings.Contains(name, a.Match) {
			return true
		}
	}
	return false
}

var contractKinds = map[string]bool{"post": true, "pre": true, "inv-init": true, "inv-pres": true, "dec": true, "schema": true, "attr": true,
	"own": true, "rg": true, "rank": true, "rankq": true, "cost": true, "crash": true, "frame": true, "reads": true, "lemma": true, "struct": true}

func cmdCheck(args []string) int {
	t0 := time.Now()
	fs := flag.NewFlagSet("check", flag.ExitOnError)
	tierName := fs.String("tier", "quick", "quick|thorough")
	repo := fs.String("repo", "/repo", "repository under verification")
	writeBaseline := fs.Bool("write-baseline", false, "(maintenance) record the discharged obligations as the baseline")
	verbose := fs.Bool("v", false, "list every non-discharged obligation")
	var id string
	if len(args) > 0 && !strings.HasPrefix(args[0], "-") {
		id = args[0]
		args = args[1:]
	}
	fs.Parse(args)
	if v := os.Getenv("VERIF_TIER"); v != "" {
		*tierName = v
	}
	seed := 0
	if v := os.Getenv("VERIF_SEED"); v != "" {
		seed, _ = strconv.Atoi(v)
	}
	d := drivers[id]
	if d == nil {
		fmt.Fprintln(os.Stderr, "unknown property", id)
		return 2
	}
	tier := quickTier(seed)
	if *tierName == "thorough" {
		tier = thoroughTier(seed)
	}
	e, err := loadEngine(*repo)
	if err != nil {
		// the tree does not build: nothing can be decided; this is an error of the input, not a violation
		fmt.Fprintln(os.Stderr, "govc: cannot load /repo:", err)
		return 2
	}
	e.computeModSets()
	e.fixPureModsets()
	tGen := time.Now()
	run := d.Run(e, tier)
	run.ID = id
	if run.Claim != nil {
		for _, r := range run.Results {
			var keep []*Obligation
			for _, o := range r.Obls {
				if run.Claim(o) {
					keep = append(keep, o)
				}
			}
			r.Obls = keep
		}
	}
	if os.Getenv("GOVC_TRACE") != "" {
		fmt.Fprintf(os.Stderr, "generation: %.1fs (load+gen since start %.1fs)\n", time.Since(tGen).Seconds(), time.Since(t0).Seconds())
	}
	if os.Getenv("GOVC_GENONLY") != "" {
		return 0
	}
	known := loadKnown()
	knownBy := map[string]knownFinding{}
	for _, k := range known.Findings {
		if k.Property == id {
			knownBy[k.Obligation] = k
		}
	}
	base, baseUndecided := loadBaseline(id)
	if !*writeBaseline && tier.Name == "quick" {
		// obligations that were already undecided on the unchanged tree are not claimed: no model search for them
		tier.Skip = func(o *Obligation) bool {
			if _, isKnown := knownBy[o.Name]; isKnown {
				return true
			}
			if _, isKnown := knownBy[baseName(o.Name)]; isKnown && o.Kind == "schema" {
				return true // listed genuine defect: reported as KNOWN-FINDING, re-attempted only in the thorough tier
			}
			if contractKinds[o.Kind] {
				return acceptedIncomplete(id, o.Name)
			}
			return baseUndecided[o.Name]
		}
	}
	if *writeBaseline {
		tier.NoModels = true
	}
	tier.LiteSatFinal = func(o *Obligation) bool { return o.Kind == "rankq" }
	discharge(run.Results, tier)
	if run.PostDischarge != nil {
		run.PostDischarge()
	}
	var cwg sync.WaitGroup
	for _, r := range run.Results {
		if len(r.Obls) > 0 && r.frame != nil {
			r := r
			cwg.Add(1)
			go func() { defer cwg.Done(); coverCheck(r, tier) }()
		}
	}
	cwg.Wait()
	var violations []string
	claimed, discharged, undecided, knownHit := 0, 0, 0, 0
	var undecidedList, knownList []string
	seen := map[string]bool{}
	samples := []any{}
	byKind := map[string][2]int{}
	solverWins := map[string]int{}
	var solverSecs float64
	var vacuous []string
	type failRec struct {
		r *FnResult
		o *Obligation
	}
	knownFns := knownFunctions(id)
	var failing []failRec
	var regressed []string
	var needsContract []string
	// name-shift ambiguity: obligations are named kind/text#ordinal; when the unchanged tree already had an undecided
	// obligation with the same kind/text, an edit that inserts or removes a sibling can move an undecided instance
	// onto a baseline name. Such a failure is reported only if its counter-model replays as a panic.
	undecidedSiblings := map[string]bool{}
	for n := range baseUndecided {
		undecidedSiblings[baseName(n)] = true
	}
	// (function, kind) pairs that lost a baseline obligation in this run: a proved check was replaced by something else
	nowNames := map[string]bool{}
	for _, r := range run.Results {
		for _, o := range r.Obls {
			nowNames[o.Name] = true
		}
	}
	goneFK := map[string]bool{}
	for n := range base {
		if !nowNames[n] {
			parts := strings.SplitN(n, "/", 4)
			if len(parts) >= 3 {
				// names are <pkg>/<fn>/<kind>/<text>: the function key itself contains one slash
				goneFK[parts[0]+"/"+parts[1]+"/"+parts[2]] = true
			}
		}
	}
	for _, r := range run.Results {
		solverSecs += r.SolverSecs
		if r.frame != nil && len(r.Obls) > 0 && !r.CoverOK && r.CoverAnswer != "no-return" {
			vacuous = append(vacuous, r.Fn)
		}
		for _, o := range r.Obls {
			seen[o.Name] = true
			k := byKind[o.Kind]
			k[0]++
			// claimed: in the baseline, or generated from a contract/schema clause - unless that obligation was already
			// undecided on the unchanged tree when the baseline was taken (proof incompleteness, listed and unclaimed)
			isClaimed := base[o.Name] || (contractKinds[o.Kind] && !acceptedIncomplete(id, o.Name))
			if o.Answer == "unsat" {
				k[1]++
				byKind[o.Kind] = k
				if isClaimed || *writeBaseline {
					claimed++
					discharged++
				}
				solverWins[strings.Fields(o.Solver + " ?")[0]]++
				if len(samples) < 6 && o.Solver != "trivial" {
					samples = append(samples, map[string]any{"obligation": o.Name, "kind": o.Kind, "pos": o.Pos, "answer": o.Answer, "solver": o.Solver})
				}
				continue
			}
			byKind[o.Kind] = k
			kf, ok := knownBy[o.Name]
			if !ok && o.Kind == "schema" {
				// a schema instance is identified by function + schema(T.f); the #ordinal only numbers the return paths
				kf, ok = knownBy[baseName(o.Name)]
			}
			if ok {
				knownHit++
				knownList = append(knownList, o.Name)
				fmt.Printf("KNOWN-FINDING: property=%s %s witness: %s\n", id, o.Name, kf.Witness)
				continue
			}
			if !isClaimed && !baseUndecided[o.Name] && !*writeBaseline && o.Model == "" && r.frame != nil && r.query != nil && apiReachable(r.frame.fn) && !contractKinds[o.Kind] {
				// a new potentially panicking instruction of a public function without a candidate input yet: one more,
				// longer search on the quantifier-free weakening (the candidate is only ever used for replay)
				lq := r.query.backgroundLite(o.AssertIdx) + "(assert " + o.Guard + ")\n(assert (not " + o.Cond + "))\n(check-sat)\n(get-model)\n"
				lr := solve(lq, 40, tier.Seed+17, false)
				if lr.Answer == "sat" {
					o.Model = lr.Model
					o.ModelLite = true
				}
				if os.Getenv("GOVC_DEBUG_REPLAY") != "" {
					fmt.Fprintf(os.Stderr, "new-obligation search %s: %s\n", o.Name, lr.Answer)
				}
			}
			if !isClaimed && !baseUndecided[o.Name] && !*writeBaseline && o.Model != "" && r.frame != nil && apiReachable(r.frame.fn) {
				// a new potentially panicking instruction (not present on the unchanged tree): replay its counter-model
				spec := genericReplay(e, r, o)
				if os.Getenv("GOVC_DEBUG_REPLAY") != "" {
					fmt.Fprintf(os.Stderr, "new-obligation replay %s: spec=%v\n", o.Name, spec != nil)
				}
				if spec != nil {
					out, failed := runReplay(e, spec)
					if os.Getenv("GOVC_DEBUG_REPLAY") != "" {
						fmt.Fprintf(os.Stderr, "  replay failed=%v must=%q out=%.600s\nSOURCE:\n%s\n", failed, spec.MustContain, out, spec.Source)
					}
					if failed {
						_ = out
						rp := writeReplay(e, run, r, o)
						line := fmt.Sprintf("VIOLATION property=%s replay=%s", id, rp.Path)
						violations = append(violations, line)
						fmt.Printf("%s\n   obligation %s [%s] at %s (new obligation, counter-model replays as a panic)\n", line, o.Name, o.Answer, o.Pos)
						continue
					}
				}
			}
			if !isClaimed && !*writeBaseline && !contractKinds[o.Kind] && o.Answer == "sat" && !baseUndecided[o.Name] && knownFns[o.Fn] && goneFK[o.Fn+"/"+o.Kind] && !callsNewFunction(e, o.Fn, knownFns) {
				// a panic-freedom obligation of this function and kind was discharged on the unchanged tree and no longer
				// exists; in its place there is one the solver refutes under the contracts (sat on the full background,
				// not a timeout), in a function that calls nothing new (a new helper without a contract returns
				// arbitrary values in the model): the proved check was replaced by one that does not hold
				isClaimed = true
				o.Desc = strings.TrimSpace(o.Desc + " (replaces a discharged " + o.Kind + " obligation of the unchanged tree)")
			}
			if !isClaimed {
				undecided++
				undecidedList = append(undecidedList, o.Name+" ["+o.Answer+"]")
				if *verbose {
					fmt.Printf("UNDECIDED %s %s [%s] %s\n", o.Kind, o.Name, o.Answer, o.Pos)
				}
				continue
			}
			if !contractKinds[o.Kind] && undecidedSiblings[baseName(o.Name)] && !*writeBaseline {
				confirmed := false // the failing instance may be the sibling that was already undecided: no claim either way
				if !confirmed {
					undecided++
					undecidedList = append(undecidedList, o.Name+" ["+o.Answer+", ambiguous ordinal]")
					continue
				}
			}
			claimed++
			if !*writeBaseline {
				failing = append(failing, failRec{r, o})
			} else if *verbose {
				fmt.Printf("NOT-DISCHARGED %s %s [%s] %s %s\n", o.Kind, o.Name, o.Answer, o.Pos, o.Desc)
			}
		}
	}
	// claimed obligations that were not discharged: retry (all solvers, longer timeout, other seeds) concurrently
	if len(failing) > 0 {
		var rwg sync.WaitGroup
		okc := make([]bool, len(failing))
		for i := range failing {
			i := i
			rwg.Add(1)
			go func() {
				defer rwg.Done()
				okc[i] = retryObligation(failing[i].r, failing[i].o, tier)
			}()
		}
		rwg.Wait()
		for i, f := range failing {
			if okc[i] {
				discharged++
				k := byKind[f.o.Kind]
				k[1]++
				byKind[f.o.Kind] = k
				continue
			}
			if nf := e.Fn(f.o.Fn); nf != nil && len(knownFns) > 0 && !knownFns[f.o.Fn] && nf.Parent() == nil {
				if _, explicit := e.Contracts[f.o.Fn]; !explicit && contractKinds[f.o.Kind] {
					// an obligation of a function that did not exist when the baseline was taken and has no written
					// contract (only its package's default contract applies): nothing that held before fails; the
					// function needs a contract of its own. Its callers are checked without assuming the default.
					claimed--
					undecided++
					needsContract = append(needsContract, f.o.Name+" (new function without a written contract)")
					fmt.Printf("NEEDS-CONTRACT property=%s %s [%s]: %s is new and has no written contract (not reported as a violation)\n", id, f.o.Name, f.o.Answer, f.o.Fn)
					continue
				}
			}
			if orphan := orphanContractIn(e, f.o.Fn); orphan != "" && callsNewFunction(e, f.o.Fn, knownFns) {
				// a written contract of this package names a function that no longer exists while this function calls
				// one that is new: an annotated function was renamed (or replaced); the contract file has to follow
				claimed--
				undecided++
				needsContract = append(needsContract, f.o.Name+" (contract of "+orphan+" has no function any more)")
				fmt.Printf("NEEDS-CONTRACT property=%s %s [%s]: the contract of %s has no function any more and %s calls a new function (renamed?) (not reported as a violation)\n", id, f.o.Name, f.o.Answer, orphan, f.o.Fn)
				continue
			}
			if len(f.r.StaleClauses) > 0 {
				// a written loop invariant of this function names a local that no longer exists (renamed or removed): the
				// annotation has to follow the rename before anything can be concluded from the failing proof
				claimed--
				undecided++
				needsContract = append(needsContract, f.o.Name+" (stale annotation: "+f.r.StaleClauses[0]+")")
				fmt.Printf("NEEDS-CONTRACT property=%s %s [%s]: stale annotation, %s (not reported as a violation)\n", id, f.o.Name, f.o.Answer, f.r.StaleClauses[0])
				continue
			}
			if len(f.r.NewLoopHelpers) > 0 {
				// the obligation was generated through a helper that is new since the baseline, contains loops and
				// does not meet its package's default contract: it has no invariants, so the proof is limited by the
				// missing contract, not by the code. Undecided until the helper gets a contract.
				claimed--
				undecided++
				needsContract = append(needsContract, f.o.Name+" (through "+strings.Join(f.r.NewLoopHelpers, ", ")+")")
				fmt.Printf("NEEDS-CONTRACT property=%s %s [%s]: new helper with loops %s has no contract (not reported as a violation)\n", id, f.o.Name, f.o.Answer, strings.Join(f.r.NewLoopHelpers, ", "))
				continue
			}
			rp := writeReplay(e, run, f.r, f.o)
			if !contractKinds[f.o.Kind] && !rp.Confirmed && f.o.Answer != "sat" {
				// a panic-freedom obligation that was discharged on the unchanged tree, is undecided now (timeout / unknown,
				// not refuted) and for which no input makes the real code panic at that instruction: proof regression,
				// not evidence of a violation. A refuted one (sat under the contracts) is reported.
				claimed--
				undecided++
				regressed = append(regressed, f.o.Name+" ["+f.o.Answer+"]")
				fmt.Printf("REGRESSED-UNCONFIRMED property=%s %s [%s] at %s (no failing input found; not reported as a violation)\n", id, f.o.Name, f.o.Answer, f.o.Pos)
				continue
			}
			line := fmt.Sprintf("VIOLATION property=%s replay=%s", id, rp.Path)
			if !rp.Confirmed {
				line += " no-failing-input-found"
			}
			violations = append(violations, line)
			fmt.Printf("%s\n   obligation %s [%s] at %s\n", line, f.o.Name, f.o.Answer, f.o.Pos)
		}
	}
	for _, v := range vacuous {
		// a contradictory context proves everything: refuse to call that a pass
		rp := filepath.Join(outDir(), "replays", id, "vacuous-"+sanitize(v)+".json")
		os.MkdirAll(filepath.Dir(rp), 0o755)
		os.WriteFile(rp, []byte(fmt.Sprintf("{\"obligation\":\"cover/%s\",\"reason\":\"normal exit provably unreachable under the contract's preconditions and assumed callee contracts (vacuous proof context)\"}", v)), 0o644)
		line := fmt.Sprintf("VIOLATION property=%s replay=%s no-failing-input-found", id, rp)
		violations = append(violations, line)
		fmt.Println(line)
	}
	if os.Getenv("GOVC_TRACE") != "" {
		rs2 := append([]*FnResult(nil), run.Results...)
		sort.Slice(rs2, func(i, j int) bool { return rs2[i].SolverSecs > rs2[j].SolverSecs })
		for i, r := range rs2 {
			if i >= 25 {
				break
			}
			fmt.Fprintf(os.Stderr, "solver %-60s %7.1fs obls=%d bg=%dKB\n", r.Fn, r.SolverSecs, len(r.Obls), len(r.Background)/1024)
		}
	}
	var gone []string
	for o := range base {
		if !seen[o] {
			gone = append(gone, o)
		}
	}
	sort.Strings(gone)
	for o, kf := range knownBy {
		if !seen[o] {
			fmt.Printf("note: known finding %q not generated on this tree (%s)\n", o, kf.Witness)
		}
	}
	if *writeBaseline {
		var names, und []string
		for _, r := range run.Results {
			for _, o := range r.Obls {
				if o.Answer == "unsat" {
					names = append(names, o.Name)
				} else if !contractKinds[o.Kind] {
					und = append(und, o.Name)
				}
			}
		}
		sort.Strings(names)
		sort.Strings(und)
		os.MkdirAll(filepath.Join(verifDir(), "baseline"), 0o755)
		var fnames []string
		for _, r := range run.Results {
			fnames = append(fnames, r.Fn)
		}
		sort.Strings(fnames)
		b, _ := json.MarshalIndent(baselineFile{Property: id, Functions: fnames, Obligations: names, Undecided: und}, "", " ")
		os.WriteFile(filepath.Join(verifDir(), "baseline", id+".json"), b, 0o644)
		fmt.Printf("baseline written: %d obligations\n", len(names))
	}
	total := 0
	for _, r := range run.Results {
		total += len(r.Obls)
	}
	if total == 0 {
		fmt.Printf("VIOLATION property=%s replay=%s no-failing-input-found\n   no obligations were generated (vacuous check)\n", id, filepath.Join(verifDir(), "replays", id, "no-obligations.json"))
		violations = append(violations, "vacuous")
	}
	// evidence
	trusted := append([]string{}, run.Assumptions...)
	for _, t := range sortedKeys(trustedUsed) {
		trusted = append(trusted, "assumed contract: "+t)
	}
	trusted = append(trusted, "x/tools go/ssa lowering of the Go source", "SMT encodings of DESIGN.md 1.3 (mathematical integers, abstract strings, flat typed heap)", "z3 4.8.12, z3 5.1.0, cvc5 1.0.3")
	kinds := map[string]any{}
	for k, v := range byKind {
		kinds[k] = map[string]int{"generated": v[0], "discharged": v[1]}
	}
	var notes []string
	for _, r := range run.Results {
		for _, u := range r.Unsupported {
			notes = append(notes, r.Fn+": "+u)
		}
	}
	if len(undecidedList) > 40 {
		undecidedList = append(undecidedList[:40], fmt.Sprintf("... and %d more", len(undecidedList)-40))
	}
	cov := map[string]any{
		"obligations": claimed, "discharged": discharged,
		"checker_cmd":                 fmt.Sprintf("govc check %s --tier %s  (VC generation over go/ssa of /repo's working tree; z3-new, z3, cvc5 raced per obligation)", id, tier.Name),
		"trusted_base":                trusted,
		"samples":                     samples,
		"functions_under_contract":    run.FUC,
		"obligations_generated_total": total,
		"by_kind":                     kinds, "known_findings": knownList, "undecided_unclaimed": undecided, "undecided_list": undecidedList,
		"baseline_obligations_gone": gone, "safety_obligations_regressed_without_failing_input": regressed, "undecided_through_new_helpers_without_contract": needsContract, "solver_wins": solverWins, "solver_seconds": solverSecs,
		"not_covered": run.NotCovered, "unsupported_notes": notes, "explanation": run.Explanation,
		"bounded_stand_ins": run.Bounded, "abstracted_callees": run.Abstracted, "helpers_seen_through_inlining": e.Exempted,
		"evaluations": total, "distinct_nontrivial": claimed, "rule": "one evaluation = one generated verification condition; non-trivial = claimed (in the committed baseline or generated from a contract/schema clause)",
	}
	for k, v := range run.Extra {
		cov[k] = v
	}
	level := run.Level
	if level == "" {
		level = "proof"
	}
	ev := map[string]any{
		"property_id": id, "tier": tier.Name, "seed": seed, "level": level, "coverage": cov,
		"assumptions": trusted, "wall_s": time.Since(t0).Seconds(), "violations": len(violations),
	}
	os.MkdirAll(filepath.Join(outDir(), "evidence"), 0o755)
	b, _ := json.MarshalIndent(ev, "", " ")
	os.WriteFile(filepath.Join(outDir(), "evidence", id+".json"), b, 0o644)
	fmt.Printf("%s: %d obligations generated, %d claimed, %d discharged, %d known findings, %d undecided (unclaimed), %d violations, %.1fs\n",
		id, total, claimed, discharged, knownHit, undecided, len(violations), time.Since(t0).Seconds())
	if len(violations) > 0 {
		return 1
	}
	return 0
}

// apiReachable: exported function or exported method of an exported type - a caller outside the module can invoke it
// with the arguments of a counter-model. A panic of an unexported helper on arguments its callers never pass is not
// a violation of a property about the public entry points.
func apiReachable(fn *ssa.Function) bool {
	if fn == nil || fn.Parent() != nil {
		return false
	}
	obj, ok := fn.Object().(*types.Func)
	if !ok || !obj.Exported() {
		return false
	}
	if recv := fn.Signature.Recv(); recv != nil {
		t := recv.Type()
		if p, ok := t.(*types.Pointer); ok {
			t = p.Elem()
		}
		if n, ok := t.(*types.Named); ok {
			return n.Obj().Exported()
		}
		return false
	}
	return true
}

func baseName(n string) string {
	if i := strings.LastIndex(n, "#"); i > 0 {
		if _, err := strconv.Atoi(n[i+1:]); err == nil {
			return n[:i]
		}
	}
	return n
}

// retryObligation: all solvers, thorough timeout, three seeds; any unsat discharges.
func retryObligation(r *FnResult, o *Obligation, tier Tier) bool {
	if r.query == nil {
		return false
	}
	rounds, to := 1, 25
	if tier.Name == "thorough" {
		rounds, to = 3, 60
	}
	for s := 1; s <= rounds; s++ {
		solverSem <- struct{}{}
		sr := solve(obQuery(r, o), to, tier.Seed+s*7919, false)
		<-solverSem
		if sr.Answer == "unsat" {
			o.Answer = "unsat"
			o.Solver = sr.Solver + " (retry)"
			return true
		}
		if sr.Answer == "sat" {
			if sr.Model != "" {
				o.Model = sr.Model
			}
			o.Answer = "sat"
			return false
		}
	}
	return false
}

type replayResult struct {
	Path      string
	Confirmed bool
}

func writeReplay(e *Engine, run *PropRun, r *FnResult, o *Obligation) replayResult {
	dir := filepath.Join(outDir(), "replays", run.ID)
	os.MkdirAll(dir, 0o755)
	h := sha1.Sum([]byte(o.Name))
	path := filepath.Join(dir, fmt.Sprintf("%s-%x.json", sanitize(o.Kind), h[:6]))
	rec := map[string]any{"property": run.ID, "obligation": o.Name, "kind": o.Kind, "function": o.Fn, "pos": o.Pos,
		"solver_answer": o.Answer, "solver": o.Solver, "model": o.Model, "model_from_quantifier_free_weakening": o.ModelLite, "desc": o.Desc}
	confirmed := false
	var spec *ReplaySpec
	if run.Replay != nil {
		spec = run.Replay(o, r)
	}
	if spec == nil && o.Kind == "schema" {
		spec = schemaReplay(o)
	}
	if spec == nil && o.Model != "" && r.frame != nil {
		spec = genericReplay(e, r, o)
	}
	if spec != nil {
		out, failed := runReplay(e, spec)
		rec["go_test"] = spec.Source
		rec["go_test_pkg"] = spec.PkgDir
		rec["go_test_name"] = spec.TestName
		rec["must_contain"] = spec.MustContain
		rec["replay_output"] = out
		rec["replay_failed_as_expected"] = failed
		confirmed = failed
	} else {
		rec["note"] = "no executable witness could be synthesised for this obligation; the failed obligation and the solver output are the report"
	}
	b, _ := json.MarshalIndent(rec, "", " ")
	os.WriteFile(path, b, 0o644)
	return replayResult{Path: path, Confirmed: confirmed}
}

// callsNewFunction: does the function (or a closure of it) call a repository function that did not exist when the
// baselines were taken?
func callsNewFunction(e *Engine, key string, known map[string]bool) bool {
	fn := e.Fn(key)
	if fn == nil {
		return true
	}
	var visit func(f *ssa.Function) bool
	visit = func(f *ssa.Function) bool {
		for _, b := range f.Blocks {
			for _, ins := range b.Instrs {
				ci, ok := ins.(ssa.CallInstruction)
				if !ok {
					continue
				}
				c := ci.Common().StaticCallee()
				if c == nil || !e.inRepo(c) {
					continue
				}
				if c.Parent() != nil {
					if visit(c) {
						return true
					}
					continue
				}
				if !known[fnKey(c)] {
					return true
				}
			}
		}
		for _, an := range f.AnonFuncs {
			if visit(an) {
				return true
			}
		}
		return false
	}
	return visit(fn)
}

// orphanContractIn: a written (non-default) contract of the package of fn whose function does not exist (any more)
func orphanContractIn(e *Engine, fnKeyStr string) string {
	fn := e.Fn(fnKeyStr)
	if fn == nil || fn.Pkg == nil {
		return ""
	}
	pkg := fn.Pkg.Pkg.Path()
	var keys []string
	for k, c := range e.Contracts {
		if c.Default || c.PkgPath != pkg || strings.Contains(k, "$") {
			continue
		}
		if e.Fn(k) == nil {
			keys = append(keys, k)
		}
	}
	sort.Strings(keys)
	if len(keys) > 0 {
		return keys[0]
	}
	return ""
}
