package main

import (
	"fmt"
	"go/ast"
	"go/token"
	"go/types"
	"os"
	"sort"
	"strings"

	"golang.org/x/tools/go/packages"
	"golang.org/x/tools/go/ssa"
	"golang.org/x/tools/go/ssa/ssautil"
)

const modPath = "github.com/ajitpratap0/GoSQLX"

type Engine struct {
	Cursors map[int]string // typeID -> leaf path of the cursor field (contract directive `cursor`)
	RepoDir string
	Prog    *ssa.Program
	Pkgs    []*packages.Package
	SPkgs   map[string]*ssa.Package // by import path
	PPkgs   map[string]*packages.Package
	Fset    *token.FileSet

	Contracts     map[string]*Contract // by function key
	Defaults      []*Contract
	Preds         map[string]*PredDef
	SpecFns       map[string]*SpecFn
	Axioms        []string
	SpecDefs      []string
	RG            map[string]*RGSpec
	exempt        map[string]bool
	addrTaken     map[*ssa.Function]bool
	fvCache       map[string][]*ssa.Function
	refsets       map[*ssa.Function]map[string]bool
	refAll        map[*ssa.Function]bool
	Exempted      []string
	exemptLoops   map[string]bool // exempted helpers that contain loops (no invariants: callers' proofs are limited by that)
	ContractFiles []string

	globalAddr map[*ssa.Global]int
	nextGlobal int
	funcIDs    map[*ssa.Function]int

	modsets map[*ssa.Function]*ModSet
	allFns  []*ssa.Function
	fnByKey map[string]*ssa.Function

	implCache      map[string][]types.Type
	globalFactHook func(fr *Frame, g *ssa.Global, v Val)
	allNamed       []types.Type
}

func loadEngine(repo string, patterns ...string) (*Engine, error) {
	if len(patterns) == 0 {
		patterns = []string{"./pkg/...", "./cmd/..."}
	}
	cfg := &packages.Config{Mode: packages.LoadAllSyntax, Dir: repo, BuildFlags: []string{"-tags=verif"},
		Env: append(os.Environ(), "GOFLAGS=-mod=mod", "GOPROXY=off", "GOSUMDB=off", "GOTOOLCHAIN=local")}
	pkgs, err := packages.Load(cfg, patterns...)
	if err != nil {
		return nil, err
	}
	nerr := 0
	packages.Visit(pkgs, nil, func(p *packages.Package) {
		for _, e := range p.Errors {
			if nerr < 10 {
				fmt.Fprintf(os.Stderr, "load error: %v\n", e)
			}
			nerr++
		}
	})
	if nerr > 0 {
		return nil, fmt.Errorf("%d package load errors (the tree does not compile)", nerr)
	}
	prog, spkgs := ssautil.AllPackages(pkgs, ssa.GlobalDebug|ssa.InstantiateGenerics)
	prog.Build()
	e := &Engine{RepoDir: repo, Prog: prog, Pkgs: pkgs, SPkgs: map[string]*ssa.Package{}, PPkgs: map[string]*packages.Package{},
		Fset: prog.Fset, Contracts: map[string]*Contract{}, Preds: map[string]*PredDef{}, SpecFns: map[string]*SpecFn{},
		globalAddr: map[*ssa.Global]int{}, nextGlobal: 16, funcIDs: map[*ssa.Function]int{},
		modsets: map[*ssa.Function]*ModSet{}, fnByKey: map[string]*ssa.Function{}, implCache: map[string][]types.Type{}}
	for i, p := range pkgs {
		if spkgs[i] != nil {
			e.SPkgs[p.PkgPath] = spkgs[i]
		}
	}
	packages.Visit(pkgs, nil, func(p *packages.Package) { e.PPkgs[p.PkgPath] = p })
	for fn := range ssautil.AllFunctions(prog) {
		if fn.Pkg == nil && fn.Package() == nil {
			continue
		}
		e.allFns = append(e.allFns, fn)
	}
	sort.Slice(e.allFns, func(i, j int) bool { return fnKey(e.allFns[i]) < fnKey(e.allFns[j]) })
	for _, fn := range e.allFns {
		k := fnKey(fn)
		if _, ok := e.fnByKey[k]; !ok {
			e.fnByKey[k] = fn
		}
	}
	// all named types (for interface-implementer enumeration), deterministic order
	seen := map[string]bool{}
	var pk []string
	for path := range e.PPkgs {
		pk = append(pk, path)
	}
	sort.Strings(pk)
	for _, path := range pk {
		p := e.PPkgs[path]
		if p.Types == nil {
			continue
		}
		sc := p.Types.Scope()
		for _, n := range sc.Names() {
			if tn, ok := sc.Lookup(n).(*types.TypeName); ok && !tn.IsAlias() {
				if _, isIface := tn.Type().Underlying().(*types.Interface); isIface {
					continue
				}
				if nt, ok := tn.Type().(*types.Named); ok && nt.TypeParams().Len() > 0 {
					continue
				}
				k := typeKey(tn.Type())
				if !seen[k] {
					seen[k] = true
					e.allNamed = append(e.allNamed, tn.Type())
				}
			}
		}
	}
	if err := e.loadContracts(); err != nil {
		return nil, err
	}
	return e, nil
}

// fnKey: "pkgshort.(*Recv).Name" or "pkgshort.Name"; anonymous functions "parent$1".
func fnKey(fn *ssa.Function) string {
	if fn.Parent() != nil {
		return fnKey(fn.Parent()) + "$" + strings.TrimPrefix(fn.Name(), fn.Parent().Name()+"$")
	}
	pkg := ""
	if fn.Pkg != nil {
		pkg = fn.Pkg.Pkg.Path()
	} else if fn.Package() != nil {
		pkg = fn.Package().Pkg.Path()
	}
	pkg = strings.TrimPrefix(pkg, modPath+"/")
	pkg = strings.TrimPrefix(pkg, "pkg/")
	if recv := fn.Signature.Recv(); recv != nil {
		t := recv.Type()
		ptr := ""
		if p, ok := t.(*types.Pointer); ok {
			ptr = "*"
			t = p.Elem()
		}
		name := ""
		if n, ok := t.(*types.Named); ok {
			name = n.Obj().Name()
			if n.Obj().Pkg() != nil && fn.Pkg == nil {
				pkg = strings.TrimPrefix(strings.TrimPrefix(n.Obj().Pkg().Path(), modPath+"/"), "pkg/")
			}
		} else {
			name = t.String()
		}
		if ptr != "" {
			return fmt.Sprintf("%s.(*%s).%s", pkg, name, fn.Name())
		}
		return fmt.Sprintf("%s.(%s).%s", pkg, name, fn.Name())
	}
	return pkg + "." + fn.Name()
}

func (e *Engine) Fn(key string) *ssa.Function { return e.fnByKey[key] }

func (e *Engine) inRepo(fn *ssa.Function) bool {
	p := fn.Package()
	if p == nil {
		if fn.Parent() != nil {
			return e.inRepo(fn.Parent())
		}
		if recv := fn.Signature.Recv(); recv != nil {
			t := recv.Type()
			if pt, ok := t.(*types.Pointer); ok {
				t = pt.Elem()
			}
			if n, ok := t.(*types.Named); ok && n.Obj().Pkg() != nil {
				return strings.HasPrefix(n.Obj().Pkg().Path(), modPath)
			}
		}
		return false
	}
	return strings.HasPrefix(p.Pkg.Path(), modPath)
}

func (e *Engine) globalAddress(g *ssa.Global) int {
	if a, ok := e.globalAddr[g]; ok {
		return a
	}
	a := e.nextGlobal
	elem := g.Type().(*types.Pointer).Elem()
	e.nextGlobal += cellsOf(elem) + 1
	e.globalAddr[g] = a
	return a
}

const globalEnd = 1 << 20

func (e *Engine) funcID(f *ssa.Function) int {
	if id, ok := e.funcIDs[f]; ok {
		return id
	}
	id := len(e.funcIDs) + 1
	e.funcIDs[f] = id
	return id
}

// implementers of an interface type among all named types of the loaded program (T and *T)
func (e *Engine) implementers(it *types.Interface, key string) []types.Type {
	if r, ok := e.implCache[key]; ok {
		return r
	}
	var out []types.Type
	for _, t := range e.allNamed {
		if types.Implements(t, it) {
			out = append(out, t)
		}
		pt := types.NewPointer(t)
		if types.Implements(pt, it) {
			out = append(out, pt)
		}
	}
	e.implCache[key] = out
	return out
}

// ---------- source helpers ----------

func (e *Engine) posString(p token.Pos) string {
	if !p.IsValid() {
		return "?"
	}
	ps := e.Fset.Position(p)
	return fmt.Sprintf("%s:%d", strings.TrimPrefix(ps.Filename, e.RepoDir+"/"), ps.Line)
}

// funcDecl returns the syntax of a source function
func funcSyntax(fn *ssa.Function) ast.Node { return fn.Syntax() }

// ---------- mod sets (which array families a function may write) ----------

type ModSet struct {
	All   bool
	Arrs  map[string]bool
	Alloc bool
}

func (m *ModSet) add(o *ModSet) bool {
	ch := false
	if o.All && !m.All {
		m.All = true
		ch = true
	}
	if o.Alloc && !m.Alloc {
		m.Alloc = true
		ch = true
	}
	for a := range o.Arrs {
		if !m.Arrs[a] {
			m.Arrs[a] = true
			ch = true
		}
	}
	return ch
}

// storeArrays: the array families touched by a store of a value of type t through a pointer
func storeArrays(t types.Type) []string {
	var out []string
	for _, lf := range layoutOf(t).leaves {
		out = append(out, lf.Arr)
	}
	return out
}

func (e *Engine) computeModSets() {
	if len(e.modsets) > 0 {
		return
	}
	direct := map[*ssa.Function]*ModSet{}
	directRef := map[*ssa.Function]map[string]bool{}
	callees := map[*ssa.Function][]*ssa.Function{}
	for _, fn := range e.allFns {
		m := &ModSet{Arrs: map[string]bool{}}
		direct[fn] = m
		directRef[fn] = map[string]bool{}
		if fn.Blocks == nil {
			// external / no body: known pure intrinsics handled at call sites; unknown => All
			continue
		}
		for _, b := range fn.Blocks {
			for _, ins := range b.Instrs {
				switch x := ins.(type) {
				case *ssa.UnOp:
					if x.Op == token.MUL {
						if pt, ok := underlying(x.X.Type()).(*types.Pointer); ok {
							for _, a := range e.placeArrays(x.X, pt.Elem()) {
								directRef[fn][a] = true
							}
						}
					}
				case *ssa.Store:
					if freshRoot(x.Addr, map[ssa.Value]bool{}) {
						// the cell of a local of this very call (e.g. a variable captured by a closure): it did not
						// exist before the call, so no cell the caller knows anything about is written
						continue
					}
					pt, ok := underlying(x.Addr.Type()).(*types.Pointer)
					if ok {
						for _, a := range e.placeArrays(x.Addr, pt.Elem()) {
							m.Arrs[a] = true
						}
					}
				case *ssa.Alloc, *ssa.MakeSlice, *ssa.MakeInterface, *ssa.MakeMap, *ssa.MakeClosure, *ssa.MakeChan:
					m.Alloc = true
				case *ssa.Go, *ssa.Select, *ssa.Send:
					m.All = true
				case ssa.CallInstruction:
					c := x.Common()
					if c.IsInvoke() {
						if im := intrinsicInvokeMod(c); im != nil {
							m.add(im)
						} else if tg, ok := e.invokeTargets(c); ok {
							callees[fn] = append(callees[fn], tg...)
						} else {
							m.All = true
						}
						continue
					}
					switch cv := c.Value.(type) {
					case *ssa.Function:
						callees[fn] = append(callees[fn], cv)
					case *ssa.Builtin:
						if cv.Name() == "append" || cv.Name() == "copy" {
							if len(c.Args) > 0 {
								if st, ok := underlying(c.Args[0].Type()).(*types.Slice); ok {
									for _, a := range storeArrays(st.Elem()) {
										m.Arrs[a] = true
									}
								}
							}
							m.Alloc = true
						}
					case *ssa.MakeClosure:
						callees[fn] = append(callees[fn], cv.Fn.(*ssa.Function))
					default:
						// call through a function value: every function of the program that is ever used as a value
						// and has this signature (closed world over the loaded program)
						if tg := e.funcValueTargets(c.Value.Type()); tg != nil {
							callees[fn] = append(callees[fn], tg...)
						} else {
							m.All = true
						}
					}
				}
			}
		}
	}
	for _, fn := range e.allFns {
		e.modsets[fn] = &ModSet{Arrs: map[string]bool{}}
		if im := intrinsicFuncMod(fn); im != nil {
			// trusted write set (assumed contract): the body, if any, is not consulted
			e.modsets[fn].add(im)
			callees[fn] = nil
			continue
		}
		e.modsets[fn].add(direct[fn])
		if fn.Blocks == nil {
			e.modsets[fn].All = true
		}
	}
	for changed := true; changed; {
		changed = false
		for _, fn := range e.allFns {
			for _, c := range callees[fn] {
				cm := e.modsets[c]
				if cm == nil {
					if !e.modsets[fn].All {
						e.modsets[fn].All = true
						changed = true
					}
					continue
				}
				if e.modsets[fn].add(cm) {
					changed = true
				}
			}
		}
	}
	// read sets (which array families a call may load from), same propagation; a function without a body or with an
	// unresolved call reads everything unless it is a known library function (those do not read repository objects)
	e.refsets = map[*ssa.Function]map[string]bool{}
	e.refAll = map[*ssa.Function]bool{}
	for _, fn := range e.allFns {
		e.refsets[fn] = map[string]bool{}
		for a := range directRef[fn] {
			e.refsets[fn][a] = true
		}
		if fn.Blocks == nil && fn.Pkg != nil && strings.HasPrefix(fn.Pkg.Pkg.Path(), modPath) {
			e.refAll[fn] = true
		}
	}
	for changed := true; changed; {
		changed = false
		for _, fn := range e.allFns {
			for _, c := range callees[fn] {
				if e.refAll[c] && !e.refAll[fn] {
					e.refAll[fn] = true
					changed = true
				}
				for a := range e.refsets[c] {
					if !e.refsets[fn][a] {
						e.refsets[fn][a] = true
						changed = true
					}
				}
			}
		}
	}
}

// funcValueTargets: functions and closures that escape as values and whose signature is identical to t
func (e *Engine) funcValueTargets(t types.Type) []*ssa.Function {
	sig, ok := underlying(t).(*types.Signature)
	if !ok {
		return nil
	}
	if e.addrTaken == nil {
		e.addrTaken = map[*ssa.Function]bool{}
		for _, fn := range e.allFns {
			if fn.Blocks == nil {
				continue
			}
			for _, b := range fn.Blocks {
				for _, ins := range b.Instrs {
					if _, dbg := ins.(*ssa.DebugRef); dbg {
						continue
					}
					var callee ssa.Value
					if c, ok := ins.(ssa.CallInstruction); ok {
						callee = c.Common().Value
					}
					for _, op := range ins.Operands(nil) {
						switch v := (*op).(type) {
						case *ssa.Function:
							if v != callee {
								e.addrTaken[v] = true
							}
						case *ssa.MakeClosure:
							if ssa.Value(v) != callee {
								e.addrTaken[v.Fn.(*ssa.Function)] = true
							}
						}
					}
				}
			}
		}
	}
	key := typeKey(sig)
	if r, ok := e.fvCache[key]; ok {
		return r
	}
	if e.fvCache == nil {
		e.fvCache = map[string][]*ssa.Function{}
	}
	var out []*ssa.Function
	for f := range e.addrTaken {
		fs := f.Signature
		// a closure's signature has no receiver; method values are not followed
		if fs.Recv() == nil && types.Identical(types.NewSignatureType(nil, nil, nil, fs.Params(), fs.Results(), fs.Variadic()), types.NewSignatureType(nil, nil, nil, sig.Params(), sig.Results(), sig.Variadic())) {
			out = append(out, f)
		}
	}
	sort.Slice(out, func(i, j int) bool { return fnKey(out[i]) < fnKey(out[j]) })
	if len(out) == 0 || len(out) > 200 {
		out = nil
	}
	e.fvCache[key] = out
	return out
}

// invokeTargets: class-hierarchy resolution of an interface method call on an interface type declared in the repo
// (closed world over the loaded program: every named type implementing it).
func (e *Engine) invokeTargets(c *ssa.CallCommon) ([]*ssa.Function, bool) {
	it, ok := underlying(c.Value.Type()).(*types.Interface)
	if !ok {
		return nil, false
	}
	tk := typeKey(c.Value.Type())
	if !strings.HasPrefix(tk, modPath) && !strings.HasPrefix(tk, "interface{") {
		return nil, false
	}
	var out []*ssa.Function
	for _, t := range e.implementers(it, tk) {
		sel := e.Prog.MethodSets.MethodSet(t).Lookup(c.Method.Pkg(), c.Method.Name())
		if sel == nil {
			continue
		}
		if f := e.Prog.MethodValue(sel); f != nil {
			if f.Synthetic != "" {
				// wrapper of a method declared with a value receiver (or promoted): analyse the declared method
				if tf, ok := sel.Obj().(*types.Func); ok {
					if decl := e.Prog.FuncValue(tf); decl != nil && decl.Blocks != nil {
						f = decl
					}
				}
			}
			out = append(out, f)
		}
	}
	return out, true
}

// placeArrays: the array families a store of type t through address value addr touches.
func (e *Engine) placeArrays(addr ssa.Value, t types.Type) []string {
	switch a := addr.(type) {
	case *ssa.FieldAddr:
		st := underlying(a.X.Type().(*types.Pointer).Elem()).(*types.Struct)
		pl := layoutOf(a.X.Type().(*types.Pointer).Elem())
		fname := st.Field(a.Field).Name()
		var out []string
		for _, lf := range pl.leaves {
			if lf.Path == fname || strings.HasPrefix(lf.Path, fname+".") || strings.HasPrefix(lf.Path, fname+"#") || strings.HasPrefix(lf.Path, fname+"[") {
				out = append(out, lf.Arr)
			}
		}
		return out
	}
	return storeArrays(t)
}

// freshRoot: the address lies inside an object this very call allocated (a local cell, or a slice it made and
// indexes directly), possibly through phis over such objects, or inside a slice read back from such an object into
// which only freshly made slices are ever stored (rows of a matrix built by the call).
func freshRoot(v ssa.Value, seen map[ssa.Value]bool) bool {
	if seen[v] {
		return true
	}
	seen[v] = true
	switch x := v.(type) {
	case *ssa.Alloc, *ssa.MakeSlice:
		return true
	case *ssa.IndexAddr:
		return freshRoot(x.X, seen)
	case *ssa.FieldAddr:
		return freshRoot(x.X, seen)
	case *ssa.Slice:
		return freshRoot(x.X, seen)
	case *ssa.Phi:
		for _, e := range x.Edges {
			if !freshRoot(e, seen) {
				return false
			}
		}
		return true
	case *ssa.UnOp:
		if x.Op != token.MUL {
			return false
		}
		root := containerRoot(x.X)
		if root == nil || x.Parent() == nil || !onlyIndexed(root, 0) {
			return false
		}
		// every store into that container puts a fresh object there
		n := 0
		for _, b := range x.Parent().Blocks {
			for _, ins := range b.Instrs {
				if st, ok := ins.(*ssa.Store); ok && containerRoot(st.Addr) == root && st.Addr != root {
					if _, isPtrLike := underlying(st.Val.Type()).(*types.Slice); !isPtrLike {
						continue
					}
					n++
					if !freshRoot(st.Val, seen) {
						return false
					}
				}
			}
		}
		return n > 0
	}
	return false
}

// containerRoot: the Alloc / MakeSlice an element or field address points into (nil if it is not one of this call's)
func containerRoot(a ssa.Value) ssa.Value {
	for i := 0; i < 8; i++ {
		switch x := a.(type) {
		case *ssa.Alloc, *ssa.MakeSlice:
			return a
		case *ssa.IndexAddr:
			a = x.X
		case *ssa.FieldAddr:
			a = x.X
		case *ssa.Slice:
			a = x.X
		default:
			return nil
		}
	}
	return nil
}

// onlyIndexed: the container is used by this call for element access and len/cap only (it is not handed to anyone
// who could store something else into it)
func onlyIndexed(v ssa.Value, d int) bool {
	refs := v.Referrers()
	if refs == nil || d > 4 {
		return false
	}
	for _, r := range *refs {
		switch x := r.(type) {
		case *ssa.IndexAddr:
			if x.X != v {
				return false
			}
		case *ssa.Slice:
			if !onlyIndexed(x, d+1) {
				return false
			}
		case *ssa.Call:
			if b, ok := x.Call.Value.(*ssa.Builtin); !ok || (b.Name() != "len" && b.Name() != "cap") {
				return false
			}
		case *ssa.DebugRef:
		case *ssa.Phi:
			return false
		default:
			return false
		}
	}
	return true
}
