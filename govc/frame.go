package main

// Symbolic execution of one SSA function into one set of SMT declarations,
// background assertions and named obligations (DESIGN 1.3, 1.4).

import (
	"fmt"
	"go/token"
	"go/types"
	"sort"
	"strings"

	"golang.org/x/tools/go/ssa"
)

type Val struct {
	C []string
}

type Obligation struct {
	Name  string `json:"name"`
	Kind  string `json:"kind"`
	Fn    string `json:"fn"`
	Pos   string `json:"pos"`
	Guard string `json:"-"`
	Cond  string `json:"-"`
	Desc  string `json:"desc,omitempty"`
	// filled by the checker
	Answer    string  `json:"answer,omitempty"`
	Solver    string  `json:"solver,omitempty"`
	Seconds   float64 `json:"seconds,omitempty"`
	Model     string  `json:"-"`
	Tag       string  `json:"tag,omitempty"` // property-specific tag (e.g. schema instance)
	ModelLite bool    `json:"model_lite,omitempty"`
	AssertIdx int     `json:"-"` // number of background assertions visible to this obligation
}

type Query struct {
	stale             map[string]bool // written clauses naming locals that no longer exist
	rtBase            string          // read tracking: address of the receiver object
	rtLeaves          map[string]Leaf // array family -> leaf of the receiver type
	newLoopHelpers    map[string]bool
	peakBase          string
	peakFam, peakAddr string // cost mode: array family and address of the root receiver's cursor field
	costAssumed       map[string]bool
	eng               *Engine
	decls             []string
	declared          map[string]bool
	asserts           []string
	obls              []*Obligation
	strConsts         map[string]string
	strOrder          []string
	counter           int
	notes             map[string]bool
	nameCount         map[string]int
	opts              *VCOpts
	epochCtr          int
	uninterp          map[string]bool
	covers            []string // reach conditions that must be satisfiable (vacuity guard)
}

type VCOpts struct {
	TrackReads  map[string]string // entry-point mode (C08): leaf paths of the receiver that may be read before being assigned -> why
	Cost        bool              // count steps in the ghost counter $ticks (C20)
	Safety      bool              // emit idx/slice/nil/assert/div obligations
	Overflow    bool
	InlineDepth int
	NoInline    map[string]bool
	// hooks
	OnCall           func(fr *Frame, ins ssa.CallInstruction, callee *ssa.Function, args []Val) // before the call effect
	OnReturn         func(fr *Frame, ret *ssa.Return, results []Val)
	OnStore          func(fr *Frame, st *ssa.Store)
	OnBytesToString  func(fr *Frame, x *ssa.Convert, bytes Val, str Val) // string([]byte) conversions (C19 provenance)
	OnStringToBytes  func(fr *Frame, x *ssa.Convert, str Val, bytes Val) // []byte(string) conversions
	AutoContract     func(fn *ssa.Function) *Contract                    // default contracts (e.g. cursor contract) when none is written
	SafetyKinds      map[string]bool                                     // restrict safety kinds; nil = all
	AfterCall        func(fr *Frame, ins ssa.Instruction, c *ssa.CallCommon, callee *ssa.Function, args []Val, res Val)
	OnMakeInterface  func(fr *Frame, x *ssa.MakeInterface, iv Val)
	CheckTags        map[string]bool                       // clause groups whose obligations this run generates (nil: the untagged, structural group only)
	RG               bool                                  // rely/guarantee obligations at atomic updates of cells with an rg spec
	OnMapLookup      func(fr *Frame, x *ssa.Lookup, v Val) // after a map read: object invariants of stored values may be assumed
	OnMapUpdate      func(fr *Frame, x *ssa.MapUpdate)     // before a map write: object invariants of the stored value are obligations
	StrConstFact     func(q *Query, sym string) string     // extra fact asserted about every string literal when it is first used
	InlineAcrossPkgs bool
	ProtectParams    bool
	NoContents       bool              // slice/string contents are not modelled (families are havoced instead): for properties about scalar state
	GhostInit        map[string]string // ghost scalar state vars with sort -> initial term handled by property driver
}

func newQuery(e *Engine, opts *VCOpts) *Query {
	return &Query{eng: e, newLoopHelpers: map[string]bool{}, costAssumed: map[string]bool{}, declared: map[string]bool{}, strConsts: map[string]string{}, notes: map[string]bool{}, nameCount: map[string]int{}, opts: opts, uninterp: map[string]bool{}}
}

func (q *Query) declare(name, sort string) {
	if q.declared[name] {
		return
	}
	q.declared[name] = true
	q.decls = append(q.decls, fmt.Sprintf("(declare-const %s %s)", name, sort))
}

func (q *Query) declareFun(name string, args []string, ret string) {
	if q.declared[name] {
		return
	}
	q.declared[name] = true
	q.decls = append(q.decls, fmt.Sprintf("(declare-fun %s (%s) %s)", name, strings.Join(args, " "), ret))
}

func (q *Query) fresh(hint, sort string) string {
	q.counter++
	n := fmt.Sprintf("%s!%d", hint, q.counter)
	q.declare(n, sort)
	return n
}

func (q *Query) assume(guard, fact string) {
	if fact == "true" {
		return
	}
	q.asserts = append(q.asserts, sImp(guard, fact))
}

func (q *Query) note(s string) { q.notes[s] = true }

func (q *Query) strConst(s string) string {
	if s == "" {
		return "str_empty"
	}
	if n, ok := q.strConsts[s]; ok {
		return n
	}
	n := fmt.Sprintf("strc!%d", len(q.strConsts))
	q.strConsts[s] = n
	q.strOrder = append(q.strOrder, s)
	q.declare(n, "Str")
	q.asserts = append(q.asserts, fmt.Sprintf("(= (slen %s) %d)", n, len(s)))
	if q.opts != nil && q.opts.StrConstFact != nil {
		if f := q.opts.StrConstFact(q, n); f != "" {
			q.asserts = append(q.asserts, f)
		}
	}
	if len(s) <= 24 {
		for i := 0; i < len(s); i++ {
			q.asserts = append(q.asserts, fmt.Sprintf("(= (sat %s %d) %d)", n, i, s[i]))
		}
	}
	return n
}

func (q *Query) addObligation(fr *Frame, kind, text string, pos token.Pos, guard, cond string) *Obligation {
	if cond == "true" || guard == "false" {
		// trivially discharged; still counted so that the set is a function of the source
	}
	base := fmt.Sprintf("%s/%s/%s", fnKey(fr.root().fn), kind, text)
	if fr.parent != nil {
		base = fmt.Sprintf("%s/%s/%s@%s", fnKey(fr.root().fn), kind, text, fnKey(fr.fn))
	}
	q.nameCount[base]++
	name := base
	if q.nameCount[base] > 1 {
		name = fmt.Sprintf("%s#%d", base, q.nameCount[base])
	}
	o := &Obligation{Name: name, Kind: kind, Fn: fnKey(fr.root().fn), Pos: q.eng.posString(pos), Guard: guard, Cond: cond, AssertIdx: len(q.asserts)}
	q.obls = append(q.obls, o)
	return o
}

// ---------- state ----------

type State struct {
	v     map[string]string
	epoch int
}

func (s *State) clone() *State {
	n := &State{v: make(map[string]string, len(s.v)), epoch: s.epoch}
	for k, x := range s.v {
		n.v[k] = x
	}
	return n
}

func famSort(q *Query, fam string) string {
	if strings.HasPrefix(fam, "$w|") {
		return "Bool"
	}
	if strings.HasPrefix(fam, "$") {
		if s, ok := ghostSorts[fam]; ok {
			return s
		}
		return "Int"
	}
	return "(Array Int " + famLeafSort[fam] + ")"
}

var famLeafSort = map[string]string{}
var ghostSorts = map[string]string{"$top": "Int"}

func (q *Query) get(s *State, fam string) string {
	if t, ok := s.v[fam]; ok {
		return t
	}
	n := fmt.Sprintf("%s@e%d", smtSym(fam), s.epoch)
	q.declare(n, famSort(q, fam))
	s.v[fam] = n
	return n
}

func (q *Query) havocAll(s *State) {
	q.epochCtr++
	oldTop := q.get(s, "$top")
	ghost := map[string]string{}
	ghostOld := map[string]string{}
	for k, v := range s.v {
		if strings.HasPrefix(k, "$") && k != "$top" && !ghostHavocable[k] {
			ghost[k] = v
		} else if ghostHavocable[k] {
			ghostOld[k] = v
		}
	}
	s.v = map[string]string{}
	s.epoch = q.epochCtr
	for k, v := range ghost {
		s.v[k] = v
	}
	nt := q.get(s, "$top")
	q.assume("true", fmt.Sprintf("(>= %s %s)", nt, oldTop))
	if q.opts != nil && q.opts.Cost {
		if ot, ok := oldTicks(ghostOld); ok {
			q.assume("true", fmt.Sprintf("(>= %s %s)", q.get(s, "$ticks"), ot))
		}
	}
}

func oldTicks(m map[string]string) (string, bool) { t, ok := m["$ticks"]; return t, ok }

var ghostHavocable = map[string]bool{"$ticks": true}

// merge states flowing in on edges (cond_i, state_i)
func (q *Query) merge(hint string, conds []string, sts []*State) *State {
	if len(sts) == 1 {
		return sts[0].clone()
	}
	sameEpoch := true
	for _, s := range sts[1:] {
		if s.epoch != sts[0].epoch {
			sameEpoch = false
		}
	}
	out := &State{v: map[string]string{}, epoch: sts[0].epoch}
	if !sameEpoch {
		q.epochCtr++
		out.epoch = q.epochCtr
	}
	keys := map[string]bool{}
	for _, s := range sts {
		for k := range s.v {
			keys[k] = true
		}
	}
	for _, k := range sortedKeys(keys) {
		terms := make([]string, len(sts))
		same := true
		for i, s := range sts {
			terms[i] = q.get(s, k)
			if terms[i] != terms[0] {
				same = false
			}
		}
		if same {
			out.v[k] = terms[0]
			continue
		}
		n := q.fresh(smtSym(k)+"@"+hint, famSort(q, k))
		for i := range sts {
			q.assume(conds[i], sEq(n, terms[i]))
		}
		out.v[k] = n
	}
	return out
}

// ---------- frame ----------

type flow struct {
	reach string
	st    *State
}

type retRec struct {
	reach   string
	st      *State
	results []Val
	ins     *ssa.Return
}

type deferRec struct {
	ins   *ssa.Defer
	flag  string
	order int
}

type Frame struct {
	callMode        string // how the last call was modelled (cost accounting)
	closureOverride *ssa.MakeClosure
	q               *Query
	fn              *ssa.Function
	prefix          string
	parent          *Frame
	depth           int
	vals            map[ssa.Value]Val
	params          []Val
	entry           *State // state at entry (for old())
	entryReach      string
	edgeOut         map[*ssa.BasicBlock][]flow // per succ slot
	rets            []retRec
	defers          []deferRec
	cur             flow
	curBlock        *ssa.BasicBlock
	contract        *Contract
	loops           map[*ssa.BasicBlock]*loopInfo
	backEdge        map[[2]int]bool
	names           map[string][]ssa.Value
	callOrd         map[string]int
	unsupported     []string
	ghost           map[string]string // frame-local ghost terms (property drivers)
	panics          []flow
	nonNilParams    map[*ssa.Parameter]bool
	locals          []localCell
	autoDrop        map[string]bool
	protected       []protectedObj
	blockReach      map[*ssa.BasicBlock]string
	lastAtomicLoad  map[string]string
	localKey        map[*ssa.Alloc]string
	freeLocal       map[*ssa.FreeVar]localRef
	lastCallArgs    []ssa.Value
}

type protectedObj struct {
	addr string
	typ  types.Type
}

func (fr *Frame) root() *Frame {
	for fr.parent != nil {
		fr = fr.parent
	}
	return fr
}

type loopInfo struct {
	header      *ssa.BasicBlock
	blocks      map[*ssa.BasicBlock]bool
	backs       []*ssa.BasicBlock // sources of back edges
	ordinal     int
	inState     *State
	inReach     string
	hdrState    *State
	phiVals     map[*ssa.Phi]Val
	spec        *LoopSpec
	decAtHeader string
}

var frameCounter int

func newFrame(q *Query, fn *ssa.Function, parent *Frame) *Frame {
	frameCounter++
	fr := &Frame{q: q, fn: fn, parent: parent, vals: map[ssa.Value]Val{}, edgeOut: map[*ssa.BasicBlock][]flow{},
		blockReach: map[*ssa.BasicBlock]string{}, lastAtomicLoad: map[string]string{}, localKey: map[*ssa.Alloc]string{}, freeLocal: map[*ssa.FreeVar]localRef{}, nonNilParams: map[*ssa.Parameter]bool{}, loops: map[*ssa.BasicBlock]*loopInfo{}, backEdge: map[[2]int]bool{}, callOrd: map[string]int{}, ghost: map[string]string{}}
	if parent == nil {
		fr.prefix = "v"
	} else {
		fr.depth = parent.depth + 1
		fr.prefix = fmt.Sprintf("i%d", frameCounter)
	}
	return fr
}

func (fr *Frame) sym(v ssa.Value) string {
	n := v.Name()
	return fr.prefix + "_" + sanitize(n)
}

// freshVal: unconstrained value of type t with type invariants assumed under guard
func (fr *Frame) freshVal(hint string, t types.Type, guard string, st *State) Val {
	l := layoutOf(t)
	v := Val{C: make([]string, len(l.leaves))}
	for i, lf := range l.leaves {
		v.C[i] = fr.q.fresh(hint+sanitize(lf.Path), lf.Sort)
	}
	fr.typeInv(v, t, guard, st)
	return v
}

func (fr *Frame) namedVal(name string, t types.Type) Val {
	l := layoutOf(t)
	v := Val{C: make([]string, len(l.leaves))}
	for i, lf := range l.leaves {
		n := name
		if lf.Path != "" {
			n = name + "." + sanitize(strings.ReplaceAll(lf.Path, "#", "."))
		}
		if fr.q.declared[n] {
			n = fr.q.fresh(n, lf.Sort)
		} else {
			fr.q.declare(n, lf.Sort)
		}
		v.C[i] = n
	}
	return v
}

// typeInv assumes the invariants every well-typed Go value satisfies.
func (fr *Frame) typeInv(v Val, t types.Type, guard string, st *State) {
	l := layoutOf(t)
	var top string
	if st != nil {
		top = fr.q.get(st, "$top")
	}
	for i := 0; i < len(l.leaves); i++ {
		lf := l.leaves[i]
		u := underlying(lf.Typ)
		switch lf.Comp {
		case "ptr":
			p, n, c := v.C[i], v.C[i+1], v.C[i+2]
			stride := 1
			if sl, ok := u.(*types.Slice); ok {
				stride = cellsOf(sl.Elem())
			}
			f := fmt.Sprintf("(and (<= 0 %s) (<= %s %s) (>= %s 0) (=> (= %s 0) (= %s 0)))", n, n, c, p, p, c)
			fr.q.assume(guard, f)
			if top != "" {
				fr.q.assume(guard, fmt.Sprintf("(<= (+ %s %s) %s)", p, sMulC(c, stride), top))
			}
			i += 2
		case "tag":
			fr.q.assume(guard, fmt.Sprintf("(and (>= %s 0) (=> (= %s 0) (= %s 0)))", v.C[i], v.C[i], v.C[i+1]))
			i++
		default:
			switch uu := u.(type) {
			case *types.Basic:
				if lo, hi, ok := intRange(uu); ok && lf.Sort == "Int" {
					if bitsOf(uu) == 64 && !isUnsigned(uu) && !fr.q.opts.Overflow {
						break
					}
					if bitsOf(uu) == 64 && isUnsigned(uu) && !fr.q.opts.Overflow {
						fr.q.assume(guard, fmt.Sprintf("(<= 0 %s)", v.C[i]))
						break
					}
					fr.q.assume(guard, fmt.Sprintf("(and (<= %s %s) (<= %s %s))", lo, v.C[i], v.C[i], hi))
				}
			case *types.Pointer:
				if top != "" {
					fr.q.assume(guard, fmt.Sprintf("(and (<= 0 %s) (<= (+ %s %d) %s))", v.C[i], v.C[i], cellsOf(uu.Elem()), top))
				} else {
					fr.q.assume(guard, fmt.Sprintf("(<= 0 %s)", v.C[i]))
				}
			case *types.Map, *types.Chan, *types.Signature:
				fr.q.assume(guard, fmt.Sprintf("(<= 0 %s)", v.C[i]))
			}
		}
	}
}

func zeroVal(t types.Type) Val {
	l := layoutOf(t)
	v := Val{C: make([]string, len(l.leaves))}
	for i, lf := range l.leaves {
		v.C[i] = zeroOf(lf.Sort)
	}
	return v
}

// ---------- memory ----------

func (fr *Frame) load(st *State, addr string, t types.Type) Val {
	l := layoutOf(t)
	v := Val{C: make([]string, len(l.leaves))}
	for i, lf := range l.leaves {
		famLeafSort[lf.Arr] = lf.Sort
		a := fr.q.get(st, lf.Arr)
		v.C[i] = fmt.Sprintf("(select %s %s)", a, sAdd(addr, sInt(int64(lf.Off))))
	}
	return v
}

func (fr *Frame) store(st *State, addr string, t types.Type, v Val) {
	l := layoutOf(t)
	for i, lf := range l.leaves {
		famLeafSort[lf.Arr] = lf.Sort
		a := fr.q.get(st, lf.Arr)
		st.v[lf.Arr] = fmt.Sprintf("(store %s %s %s)", a, sAdd(addr, sInt(int64(lf.Off))), v.C[i])
	}
	// keep terms small: name long store chains
	for _, lf := range l.leaves {
		if len(st.v[lf.Arr]) > 400 {
			n := fr.q.fresh(smtSym(lf.Arr)+"@s", famSort(fr.q, lf.Arr))
			fr.q.assume("true", sEq(n, st.v[lf.Arr]))
			st.v[lf.Arr] = n
		}
	}
}

func (fr *Frame) alloc(st *State, cells int) string {
	top := fr.q.get(st, "$top")
	a := fr.q.fresh(fr.prefix+"_obj", "Int")
	fr.q.assume("true", sEq(a, top))
	if cells < 1 {
		cells = 1
	}
	st.v["$top"] = fmt.Sprintf("(+ %s %d)", a, cells)
	return a
}

func (fr *Frame) allocN(st *State, n string, stride int) string {
	top := fr.q.get(st, "$top")
	a := fr.q.fresh(fr.prefix+"_arr", "Int")
	fr.q.assume("true", sEq(a, top))
	nt := fr.q.fresh("top", "Int")
	fr.q.assume("true", sEq(nt, fmt.Sprintf("(+ %s %s 1)", a, sMulC(n, stride))))
	st.v["$top"] = nt
	return a
}

// ---------- running a function ----------

func (fr *Frame) val(v ssa.Value) Val {
	if x, ok := fr.vals[v]; ok {
		return x
	}
	switch c := v.(type) {
	case *ssa.Const:
		return fr.constVal(c)
	case *ssa.Global:
		return Val{C: []string{sInt(int64(fr.q.eng.globalAddress(c)))}}
	case *ssa.Function:
		return Val{C: []string{sInt(int64(fr.q.eng.funcID(c)))}}
	case *ssa.Builtin:
		return Val{C: []string{"0"}}
	}
	// value defined in an enclosing function (free var) or not yet executed (should not happen in DAG order)
	fr.q.note("undefined value " + v.Name() + " in " + fnKey(fr.fn))
	x := fr.freshVal(fr.prefix+"_undef", v.Type(), "true", nil)
	fr.vals[v] = x
	return x
}

func (fr *Frame) constVal(c *ssa.Const) Val {
	t := c.Type()
	l := layoutOf(t)
	if c.Value == nil {
		return zeroVal(t)
	}
	if len(l.leaves) != 1 {
		return zeroVal(t)
	}
	switch l.leaves[0].Sort {
	case "Bool":
		if c.Value.String() == "true" {
			return Val{C: []string{"true"}}
		}
		return Val{C: []string{"false"}}
	case "Int":
		if i64, ok := constInt64(c); ok {
			return Val{C: []string{sInt(i64)}}
		}
		// large unsigned
		s := c.Value.ExactString()
		if strings.HasPrefix(s, "-") {
			return Val{C: []string{"(- " + s[1:] + ")"}}
		}
		return Val{C: []string{s}}
	case "Real":
		s := c.Value.ExactString()
		if strings.Contains(s, "/") {
			p := strings.SplitN(s, "/", 2)
			return Val{C: []string{fmt.Sprintf("(/ %s.0 %s.0)", p[0], p[1])}}
		}
		if strings.HasPrefix(s, "-") {
			return Val{C: []string{"(- " + s[1:] + ".0)"}}
		}
		return Val{C: []string{s + ".0"}}
	case "Str":
		return Val{C: []string{fr.q.strConst(constString(c))}}
	}
	return zeroVal(t)
}

type blockOrder struct {
	order []*ssa.BasicBlock
}

// analyseLoops finds back edges (target dominates source) and natural loops.
func (fr *Frame) analyseLoops() bool {
	fn := fr.fn
	ord := 0
	// headers in source order => ordinal
	type be struct{ from, to *ssa.BasicBlock }
	var bes []be
	for _, b := range fn.Blocks {
		for _, s := range b.Succs {
			if s.Dominates(b) {
				bes = append(bes, be{b, s})
				fr.backEdge[[2]int{b.Index, s.Index}] = true
			}
		}
	}
	hdrs := map[*ssa.BasicBlock]bool{}
	for _, e := range bes {
		hdrs[e.to] = true
	}
	var hl []*ssa.BasicBlock
	for h := range hdrs {
		hl = append(hl, h)
	}
	// order by source position of the header's first positioned instruction, fall back to index
	sort.Slice(hl, func(i, j int) bool {
		pi, pj := blockPos(hl[i]), blockPos(hl[j])
		if pi != pj {
			return pi < pj
		}
		return hl[i].Index < hl[j].Index
	})
	for _, h := range hl {
		ord++
		li := &loopInfo{header: h, blocks: map[*ssa.BasicBlock]bool{h: true}, ordinal: ord, phiVals: map[*ssa.Phi]Val{}}
		var stack []*ssa.BasicBlock
		for _, e := range bes {
			if e.to == h {
				li.backs = append(li.backs, e.from)
				if !li.blocks[e.from] {
					li.blocks[e.from] = true
					stack = append(stack, e.from)
				}
			}
		}
		for len(stack) > 0 {
			b := stack[len(stack)-1]
			stack = stack[:len(stack)-1]
			for _, p := range b.Preds {
				if !li.blocks[p] {
					li.blocks[p] = true
					stack = append(stack, p)
				}
			}
		}
		fr.loops[h] = li
	}
	// check the cut graph is acyclic (reducibility)
	state := map[*ssa.BasicBlock]int{}
	var dfs func(b *ssa.BasicBlock) bool
	dfs = func(b *ssa.BasicBlock) bool {
		state[b] = 1
		for _, s := range b.Succs {
			if fr.backEdge[[2]int{b.Index, s.Index}] {
				continue
			}
			if state[s] == 1 {
				return false
			}
			if state[s] == 0 && !dfs(s) {
				return false
			}
		}
		state[b] = 2
		return true
	}
	if len(fn.Blocks) > 0 && !dfs(fn.Blocks[0]) {
		return false
	}
	return true
}

func blockPos(b *ssa.BasicBlock) token.Pos {
	for _, ins := range b.Instrs {
		if p := ins.Pos(); p.IsValid() {
			return p
		}
		if d, ok := ins.(*ssa.DebugRef); ok && d.Expr != nil {
			return d.Expr.Pos()
		}
	}
	// look into body blocks via successors
	for _, s := range b.Succs {
		for _, ins := range s.Instrs {
			if p := ins.Pos(); p.IsValid() {
				return p
			}
		}
	}
	return token.Pos(1<<30 + b.Index)
}

func (fr *Frame) topoOrder() []*ssa.BasicBlock {
	fn := fr.fn
	var post []*ssa.BasicBlock
	seen := map[*ssa.BasicBlock]bool{}
	var dfs func(b *ssa.BasicBlock)
	dfs = func(b *ssa.BasicBlock) {
		seen[b] = true
		for _, s := range b.Succs {
			if fr.backEdge[[2]int{b.Index, s.Index}] || seen[s] {
				continue
			}
			dfs(s)
		}
		post = append(post, b)
	}
	dfs(fn.Blocks[0])
	for i, j := 0, len(post)-1; i < j; i, j = i+1, j-1 {
		post[i], post[j] = post[j], post[i]
	}
	return post
}

func (fr *Frame) collectNames() {
	fr.names = map[string][]ssa.Value{}
	for _, b := range fr.fn.Blocks {
		for _, ins := range b.Instrs {
			if d, ok := ins.(*ssa.DebugRef); ok {
				if id, ok := d.Expr.(interface{ String() string }); ok {
					_ = id
				}
				if d.Object() != nil {
					n := d.Object().Name()
					if d.IsAddr {
						n = "&" + n
					}
					dup := false
					for _, x := range fr.names[n] {
						if x == d.X {
							dup = true
						}
					}
					if !dup {
						fr.names[n] = append(fr.names[n], d.X)
					}
				}
			}
		}
	}
}

// run executes the function body. args are the parameter values (free vars first for closures are passed separately).
func (fr *Frame) run(args []Val, freeVars []Val, st *State, reach string) {
	fn := fr.fn
	q := fr.q
	if q.opts != nil && q.opts.TrackReads != nil && fr.parent == nil && len(args) > 0 && fn.Signature.Recv() != nil {
		if pt, ok := underlying(fn.Params[0].Type()).(*types.Pointer); ok {
			q.rtBase = args[0].C[0]
			q.rtLeaves = map[string]Leaf{}
			for _, lf := range layoutOf(pt.Elem()).leaves {
				q.rtLeaves[lf.Arr] = lf
				famLeafSort[lf.Arr] = lf.Sort
				st.v["$w|"+lf.Path] = "false"
			}
			// the slices handed to the entry point do not lie inside the receiver object (no safe Go expression makes a
			// slice of a struct's non-array fields)
			size := cellsOf(pt.Elem())
			for i, p := range fn.Params[1:] {
				if sl, ok := underlying(p.Type()).(*types.Slice); ok && i+1 < len(args) && len(args[i+1].C) == 3 {
					a := args[i+1]
					q.assume("true", fmt.Sprintf("(or (= %s 0) (>= %s (+ %s %d)) (<= (+ %s (* %s %d)) %s))", a.C[0], a.C[0], q.rtBase, size, a.C[0], a.C[2], cellsOf(sl.Elem()), q.rtBase))
				}
			}
		}
	}
	if q.opts != nil && q.opts.Cost {
		q.get(st, "$ticks")
		q.get(st, "$acc")
		if fr.parent == nil && len(args) > 0 {
			if fam, off, ok := q.eng.cursorOf(fn); ok {
				q.peakFam, q.peakBase = fam, args[0].C[0]
				q.peakAddr = sAdd(args[0].C[0], sInt(int64(off)))
				st.v["$hw"] = fmt.Sprintf("(select %s %s)", q.get(st, fam), q.peakAddr)
				q.get(st, "$look")
			}
		}
	}
	fr.entry = st.clone()
	fr.entryReach = reach
	for i, p := range fn.Params {
		if i < len(args) {
			fr.vals[p] = args[i]
		}
	}
	fr.params = args
	for i, fv := range fn.FreeVars {
		if i < len(freeVars) {
			fr.vals[fv] = freeVars[i]
		}
	}
	if !fr.analyseLoops() {
		q.note("irreducible control flow in " + fnKey(fn))
		fr.unsupported = append(fr.unsupported, "irreducible control flow")
		return
	}
	fr.collectNames()
	order := fr.topoOrder()
	for _, b := range order {
		fr.execBlock(b, st, reach)
	}
	// loop preservation obligations
	for _, b := range fn.Blocks {
		if li, ok := fr.loops[b]; ok && li.hdrState != nil {
			fr.loopBackObligations(li)
		}
	}
}

func (fr *Frame) predFlows(b *ssa.BasicBlock, includeBack bool) (conds []string, sts []*State, idx []int) {
	occ := map[*ssa.BasicBlock]int{}
	for i, p := range b.Preds {
		k := occ[p]
		occ[p]++
		// find k-th occurrence of b in p.Succs
		slot := -1
		c := 0
		for j, s := range p.Succs {
			if s == b {
				if c == k {
					slot = j
					break
				}
				c++
			}
		}
		isBack := fr.backEdge[[2]int{p.Index, b.Index}]
		if isBack != includeBack {
			continue
		}
		fl, ok := fr.edgeOut[p]
		if !ok || slot < 0 || slot >= len(fl) {
			continue // pred unreachable / not executed
		}
		if fl[slot].reach == "false" {
			continue
		}
		conds = append(conds, fl[slot].reach)
		sts = append(sts, fl[slot].st)
		idx = append(idx, i)
	}
	return
}

func (fr *Frame) execBlock(b *ssa.BasicBlock, st0 *State, reach0 string) {
	q := fr.q
	var reach string
	var st *State
	var conds []string
	var sts []*State
	var idx []int
	if b.Index == 0 {
		reach = reach0
		st = st0.clone()
	} else {
		conds, sts, idx = fr.predFlows(b, false)
		if len(conds) == 0 {
			// unreachable block
			fr.edgeOut[b] = nil
			// still need phi values defined to avoid undefined uses: leave undefined
			return
		}
		r := q.fresh(fmt.Sprintf("%s_bk%d", fr.prefix, b.Index), "Bool")
		q.assume("true", sEq(r, sOr(conds...)))
		reach = r
		st = q.merge(fmt.Sprintf("b%d", b.Index), conds, sts)
	}
	li := fr.loops[b]
	// phis
	for _, ins := range b.Instrs {
		phi, ok := ins.(*ssa.Phi)
		if !ok {
			break
		}
		v := fr.namedVal(fr.sym(phi), phi.Type())
		fr.vals[phi] = v
		// a header phi whose operands on the back edges are the phi itself does not change in the loop: it merely
		// merges the values flowing in on the entry edges (predFlows(.., false) lists exactly those)
		loopConst := li != nil
		if li != nil {
			inIdx := map[int]bool{}
			for _, pi := range idx {
				inIdx[pi] = true
			}
			for pi, e := range phi.Edges {
				if !inIdx[pi] && e != ssa.Value(phi) {
					loopConst = false
				}
			}
		}
		if li == nil || loopConst {
			for k, pi := range idx {
				ev := fr.val(phi.Edges[pi])
				for c := range v.C {
					q.assume(conds[k], sEq(v.C[c], ev.C[c]))
				}
			}
		} else {
			li.phiVals[phi] = v
		}
	}
	if li != nil {
		li.inState = st
		li.inReach = reach
		hs := fr.loopHeaderState(li, st)
		li.hdrState = hs
		// init obligations on each entry edge
		fr.loopEntryObligations(li, conds, sts, idx)
		st = hs.clone()
		for phi, v := range li.phiVals {
			fr.typeInv(v, phi.Type(), reach, st)
		}
		fr.assumeLoopInvariant(li, reach, st)
		if q.opts != nil && q.opts.Cost {
			// one step per passage of a loop header
			st.v["$ticks"] = "(+ " + q.get(st, "$ticks") + " 1)"
		}
	}
	fr.cur = flow{reach: reach, st: st}
	fr.curBlock = b
	fr.blockReach[b] = reach
	for _, ins := range b.Instrs {
		if _, ok := ins.(*ssa.Phi); ok {
			continue
		}
		if fr.cur.reach == "false" {
			break
		}
		fr.execInstr(ins)
	}
	if fr.cur.reach == "false" {
		if _, ok := fr.edgeOut[b]; !ok {
			fr.edgeOut[b] = make([]flow, len(b.Succs))
			for i := range fr.edgeOut[b] {
				fr.edgeOut[b][i] = flow{reach: "false", st: fr.cur.st}
			}
		}
	}
}

func constInt64(c *ssa.Const) (int64, bool) {
	if c.Value == nil {
		return 0, true
	}
	defer func() { recover() }()
	s := c.Value.ExactString()
	var v int64
	_, err := fmt.Sscanf(s, "%d", &v)
	if err != nil || fmt.Sprintf("%d", v) != s {
		return 0, false
	}
	return v, true
}

// ---------- escape analysis for local cells ----------

var escapeCache = map[*ssa.Alloc]bool{}

// allocEscapes: may the address of this local cell be known to any code other than the allocating
// function's own loads/stores (and its directly called/deferred closures)?
func allocEscapes(a *ssa.Alloc) bool {
	if v, ok := escapeCache[a]; ok {
		return v
	}
	escapeCache[a] = true // cycles: conservative
	r := addrEscapes(a, 0)
	escapeCache[a] = r
	return r
}

func addrEscapes(v ssa.Value, depth int) bool {
	if depth > 6 {
		return true
	}
	refs := v.Referrers()
	if refs == nil {
		return true
	}
	for _, r := range *refs {
		switch x := r.(type) {
		case *ssa.DebugRef:
		case *ssa.Store:
			if x.Val == v {
				return true
			}
		case *ssa.UnOp:
			// load through the address
		case *ssa.FieldAddr:
			if addrEscapes(x, depth+1) {
				return true
			}
		case *ssa.IndexAddr:
			if addrEscapes(x, depth+1) {
				return true
			}
		case *ssa.MakeClosure:
			// the closure value must only be called or deferred, and the free variable must not escape inside it
			crefs := x.Referrers()
			if crefs == nil {
				return true
			}
			for _, cr := range *crefs {
				switch c := cr.(type) {
				case *ssa.DebugRef:
				case *ssa.Defer:
					if c.Call.Value != x {
						return true
					}
				case *ssa.Call:
					if c.Call.Value != x {
						return true
					}
				default:
					return true
				}
			}
			fn := x.Fn.(*ssa.Function)
			for i, b := range x.Bindings {
				if b == v {
					if i >= len(fn.FreeVars) || addrEscapes(fn.FreeVars[i], depth+1) {
						return true
					}
				}
			}
		default:
			return true
		}
	}
	return false
}

type localCell struct {
	ins  *ssa.Alloc
	addr string
}

// preserveLocals: cells of non-escaping local allocations keep their contents across a havoc of their families.
func (fr *Frame) snapshotLocals(st *State, skip func(a *ssa.Alloc) bool) func(st2 *State) {
	return fr.snapshotLocalsFor(st, skip, nil)
}

// snapshotLocalsFor: only the leaves whose family the write set ms can touch (nil or All: every leaf)
func (fr *Frame) snapshotLocalsFor(st *State, skip func(a *ssa.Alloc) bool, ms *ModSet) func(st2 *State) {
	touched := func(fam string) bool { return ms == nil || ms.All || ms.Arrs[fam] }
	type snap struct {
		fam, addr, old string
	}
	var snaps []snap
	for _, po := range fr.root().protected {
		for _, lf := range layoutOf(po.typ).leaves {
			if !touched(lf.Arr) {
				continue
			}
			famLeafSort[lf.Arr] = lf.Sort
			a := sAdd(po.addr, sInt(int64(lf.Off)))
			snaps = append(snaps, snap{lf.Arr, a, fmt.Sprintf("(select %s %s)", fr.q.get(st, lf.Arr), a)})
		}
	}
	for f := fr; f != nil; f = f.parent {
		for _, lc := range f.locals {
			if allocEscapes(lc.ins) || (skip != nil && skip(lc.ins)) {
				continue
			}
			if _, scalar := f.localKey[lc.ins]; scalar {
				continue // not in the heap at all
			}
			elem := lc.ins.Type().(*types.Pointer).Elem()
			for _, lf := range layoutOf(elem).leaves {
				if !touched(lf.Arr) {
					continue
				}
				famLeafSort[lf.Arr] = lf.Sort
				a := sAdd(lc.addr, sInt(int64(lf.Off)))
				snaps = append(snaps, snap{lf.Arr, a, fmt.Sprintf("(select %s %s)", fr.q.get(st, lf.Arr), a)})
			}
		}
	}
	return func(st2 *State) {
		for _, s := range snaps {
			now := fmt.Sprintf("(select %s %s)", fr.q.get(st2, s.fam), s.addr)
			if now != s.old {
				fr.q.assume("true", sEq(now, s.old))
			}
		}
	}
}

func (o *VCOpts) checksTag(tag string) bool {
	if o.CheckTags == nil {
		return tag == ""
	}
	return o.CheckTags[tag]
}
