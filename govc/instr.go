package main

import (
	"fmt"
	"go/constant"
	"go/token"
	"go/types"
	"strings"

	"golang.org/x/tools/go/ssa"
)

func constString(c *ssa.Const) string {
	if c.Value != nil && c.Value.Kind() == constant.String {
		return constant.StringVal(c.Value)
	}
	return ""
}

// describe reconstructs a source-like path for naming obligations (stable under renaming of temporaries).
func describe(v ssa.Value) string {
	return describeD(v, 0)
}

func describeD(v ssa.Value, d int) string {
	if d > 6 {
		return "_"
	}
	switch x := v.(type) {
	case *ssa.Parameter:
		return x.Name()
	case *ssa.FreeVar:
		return x.Name()
	case *ssa.Global:
		return x.Name()
	case *ssa.Const:
		if x.Value == nil {
			return "nil"
		}
		s := x.Value.ExactString()
		if len(s) > 20 {
			s = s[:20]
		}
		return s
	case *ssa.FieldAddr:
		st := underlying(x.X.Type().(*types.Pointer).Elem()).(*types.Struct)
		return describeD(x.X, d+1) + "." + st.Field(x.Field).Name()
	case *ssa.Field:
		st := underlying(x.X.Type()).(*types.Struct)
		return describeD(x.X, d+1) + "." + st.Field(x.Field).Name()
	case *ssa.UnOp:
		if x.Op == token.MUL {
			return describeD(x.X, d+1)
		}
		return x.Op.String() + describeD(x.X, d+1)
	case *ssa.IndexAddr:
		return describeD(x.X, d+1) + "[" + describeD(x.Index, d+1) + "]"
	case *ssa.Index:
		return describeD(x.X, d+1) + "[" + describeD(x.Index, d+1) + "]"
	case *ssa.Lookup:
		return describeD(x.X, d+1) + "[" + describeD(x.Index, d+1) + "]"
	case *ssa.Alloc:
		if x.Comment != "" {
			return x.Comment
		}
		return "new"
	case *ssa.Phi:
		if x.Comment != "" {
			return x.Comment
		}
		return "phi"
	case *ssa.Call:
		if f := x.Call.StaticCallee(); f != nil {
			return f.Name() + "()"
		}
		if x.Call.IsInvoke() {
			return x.Call.Method.Name() + "()"
		}
		if b, ok := x.Call.Value.(*ssa.Builtin); ok {
			if len(x.Call.Args) > 0 {
				return b.Name() + "(" + describeD(x.Call.Args[0], d+1) + ")"
			}
			return b.Name() + "()"
		}
		return "call()"
	case *ssa.Extract:
		return describeD(x.Tuple, d+1) + fmt.Sprintf(".%d", x.Index)
	case *ssa.BinOp:
		return describeD(x.X, d+1) + x.Op.String() + describeD(x.Y, d+1)
	case *ssa.Slice:
		return describeD(x.X, d+1) + "[:]"
	case *ssa.Convert:
		return describeD(x.X, d+1)
	case *ssa.ChangeType:
		return describeD(x.X, d+1)
	case *ssa.ChangeInterface:
		return describeD(x.X, d+1)
	case *ssa.MakeInterface:
		return describeD(x.X, d+1)
	case *ssa.TypeAssert:
		return describeD(x.X, d+1) + ".(" + shortType(x.AssertedType) + ")"
	}
	return "_"
}

// scalarizable: a non-escaping local of struct/scalar type (arrays stay in memory: they are indexed dynamically)
func (fr *Frame) scalarizable(x *ssa.Alloc) bool {
	if allocEscapes(x) {
		return false
	}
	elem := x.Type().(*types.Pointer).Elem()
	if _, isArr := underlying(elem).(*types.Array); isArr {
		return false
	}
	// every derived address must be a FieldAddr chain (no IndexAddr into nested arrays)
	var ok func(v ssa.Value, d int) bool
	ok = func(v ssa.Value, d int) bool {
		if d > 8 {
			return false
		}
		refs := v.Referrers()
		if refs == nil {
			return false
		}
		for _, r := range *refs {
			switch y := r.(type) {
			case *ssa.IndexAddr:
				return false
			case *ssa.FieldAddr:
				if !ok(y, d+1) {
					return false
				}
			case *ssa.MakeClosure:
				fn := y.Fn.(*ssa.Function)
				for i, b := range y.Bindings {
					if b == v && i < len(fn.FreeVars) && !ok(fn.FreeVars[i], d+1) {
						return false
					}
				}
			}
		}
		return true
	}
	return ok(x, 0)
}

// isNonNil: syntactically non-nil address values (allocations, globals, interior addresses, the receiver)
func (fr *Frame) isNonNil(v ssa.Value) bool {
	switch x := v.(type) {
	case *ssa.Alloc, *ssa.Global, *ssa.FieldAddr, *ssa.IndexAddr, *ssa.Function, *ssa.MakeClosure, *ssa.MakeMap, *ssa.MakeChan:
		return true
	case *ssa.Parameter:
		return fr.nonNilParams[x]
	}
	return false
}

func (fr *Frame) nilCheck(v ssa.Value, text string, pos token.Pos) {
	if fr.isNonNil(v) {
		return
	}
	fr.safety("nil", text, pos, "(not (= "+fr.val(v).C[0]+" 0))")
}

func (fr *Frame) safety(kind, text string, pos token.Pos, cond string) {
	if !fr.q.opts.Safety {
		return
	}
	if fr.q.opts.SafetyKinds != nil && !fr.q.opts.SafetyKinds[kind] {
		return
	}
	fr.q.addObligation(fr, kind, text, pos, fr.cur.reach, cond)
	// after a passing check execution continues only when cond holds
	fr.q.assume(fr.cur.reach, cond)
}

func (fr *Frame) setVal(v ssa.Value, x Val) {
	// name the leaves to keep terms small
	l := layoutOf(v.Type())
	if len(l.leaves) != len(x.C) {
		fr.q.note(fmt.Sprintf("arity mismatch for %s in %s: %d vs %d", v.Name(), fnKey(fr.fn), len(l.leaves), len(x.C)))
		x = fr.freshVal(fr.sym(v), v.Type(), "true", nil)
	}
	out := Val{C: make([]string, len(x.C))}
	for i, c := range x.C {
		if len(c) < 24 && !strings.Contains(c, " ") {
			out.C[i] = c
			continue
		}
		n := fr.sym(v)
		if len(x.C) > 1 {
			n = fmt.Sprintf("%s.%d", n, i)
		}
		if fr.q.declared[n] {
			n = fr.q.fresh(n, l.leaves[i].Sort)
		} else {
			fr.q.declare(n, l.leaves[i].Sort)
		}
		fr.q.assume("true", sEq(n, c))
		out.C[i] = n
	}
	fr.vals[v] = out
}

func (fr *Frame) execInstr(ins ssa.Instruction) {
	q := fr.q
	st := fr.cur.st
	switch x := ins.(type) {
	case *ssa.DebugRef:
		return
	case *ssa.Alloc:
		elem := x.Type().(*types.Pointer).Elem()
		if fr.scalarizable(x) {
			frameCounter++
			key := fmt.Sprintf("$L|%s|%s%d", fr.prefix, sanitize(x.Name()), frameCounter)
			fr.localKey[x] = key
			keys, _ := fr.localLeafKeys(localRef{key: key}, elem)
			z := zeroVal(elem)
			for i, k := range keys {
				st.v[k] = z.C[i]
			}
			a := fr.alloc(st, cellsOf(elem))
			fr.vals[x] = Val{C: []string{a}}
			fr.locals = append(fr.locals, localCell{ins: x, addr: a})
			return
		}
		a := fr.alloc(st, cellsOf(elem))
		if _, big := underlying(elem).(*types.Array); !big || len(layoutOf(elem).leaves) > 1 || cellsOf(elem) <= maxInlineArray {
			fr.store(st, a, elem, zeroVal(elem))
		}
		fr.vals[x] = Val{C: []string{a}}
		fr.locals = append(fr.locals, localCell{ins: x, addr: a})
	case *ssa.BinOp:
		fr.setVal(x, fr.binop(x))
	case *ssa.UnOp:
		fr.unop(x)
	case *ssa.ChangeType:
		fr.vals[x] = fr.val(x.X)
	case *ssa.ChangeInterface:
		fr.vals[x] = fr.val(x.X)
	case *ssa.Convert:
		fr.convert(x)
	case *ssa.MakeInterface:
		fr.setVal(x, fr.makeInterface(x.X.Type(), fr.val(x.X)))
		if q.opts.OnMakeInterface != nil {
			q.opts.OnMakeInterface(fr, x, fr.vals[x])
		}
	case *ssa.TypeAssert:
		fr.typeAssert(x)
	case *ssa.Extract:
		tv := fr.val(x.Tuple)
		tt := x.Tuple.Type().(*types.Tuple)
		off := 0
		for i := 0; i < x.Index; i++ {
			off += len(layoutOf(tt.At(i).Type()).leaves)
		}
		n := len(layoutOf(tt.At(x.Index).Type()).leaves)
		fr.vals[x] = Val{C: tv.C[off : off+n]}
	case *ssa.Field:
		sv := fr.val(x.X)
		stt := underlying(x.X.Type()).(*types.Struct)
		off := 0
		for i := 0; i < x.Field; i++ {
			off += len(layoutOf(stt.Field(i).Type()).leaves)
		}
		n := len(layoutOf(stt.Field(x.Field).Type()).leaves)
		fr.vals[x] = Val{C: sv.C[off : off+n]}
	case *ssa.FieldAddr:
		p := fr.val(x.X).C[0]
		fr.nilCheck(x.X, describe(x), x.Pos())
		stt := underlying(x.X.Type().(*types.Pointer).Elem()).(*types.Struct)
		off := 0
		for i := 0; i < x.Field; i++ {
			ft := stt.Field(i).Type()
			switch underlying(ft).(type) {
			case *types.Struct, *types.Array:
				off += cellsOf(ft)
			default:
				off++
			}
		}
		fr.setVal(x, Val{C: []string{sAdd(p, sInt(int64(off)))}})
	case *ssa.IndexAddr:
		fr.indexAddr(x)
	case *ssa.Index:
		fr.index(x)
	case *ssa.Lookup:
		fr.lookup(x)
	case *ssa.Slice:
		fr.slice(x)
	case *ssa.MakeSlice:
		ln := fr.val(x.Len).C[0]
		cp := fr.val(x.Cap).C[0]
		fr.safety("makeslice", describe(x.Len), x.Pos(), fmt.Sprintf("(and (<= 0 %s) (<= %s %s))", ln, ln, cp))
		el := underlying(x.Type()).(*types.Slice).Elem()
		a := fr.allocN(st, cp, cellsOf(el))
		fr.zeroRange(st, a, cp, el)
		fr.setVal(x, Val{C: []string{a, ln, cp}})
	case *ssa.MakeMap, *ssa.MakeChan:
		a := fr.alloc(st, 1)
		fr.vals[x.(ssa.Value)] = Val{C: []string{a}}
		if mm, ok := x.(*ssa.MakeMap); ok {
			fr.mapInit(mm, a)
		}
	case *ssa.MakeClosure:
		a := fr.alloc(st, 1)
		fr.vals[x] = Val{C: []string{a}}
	case *ssa.Phi:
		return
	case *ssa.Call:
		fr.call(x)
	case *ssa.Store:
		fr.nilCheck(x.Addr, "*"+describe(x.Addr), x.Pos())
		elem := underlying(x.Addr.Type()).(*types.Pointer).Elem()
		fr.storeVia(x.Addr, elem, fr.val(x.Val))
		if q.opts.OnStore != nil {
			q.opts.OnStore(fr, x)
		}
	case *ssa.MapUpdate:
		fr.mapUpdate(x)
	case *ssa.Range:
		fr.vals[x] = Val{C: []string{"0"}}
	case *ssa.Next:
		v := fr.freshVal(fr.sym(x), x.Type(), fr.cur.reach, st)
		fr.vals[x] = v
		fr.nextFacts(x, v)
	case *ssa.Go:
		q.note("go statement in " + fnKey(fr.fn))
		fr.havocMod(st, &ModSet{All: true})
	case *ssa.Defer:
		flag := fr.cur.reach
		fr.defers = append(fr.defers, deferRec{ins: x, flag: flag, order: len(fr.defers)})
		if fr.loopOf(fr.curBlock) != nil {
			q.note("defer inside loop in " + fnKey(fr.fn))
			fr.unsupported = append(fr.unsupported, "defer in loop")
		}
	case *ssa.RunDefers:
		fr.runDefers()
	case *ssa.Send:
		fr.havocMod(st, &ModSet{All: true})
	case *ssa.Select:
		q.note("select in " + fnKey(fr.fn))
		fr.havocMod(st, &ModSet{All: true})
		fr.vals[x] = fr.freshVal(fr.sym(x), x.Type(), fr.cur.reach, st)
	case *ssa.SliceToArrayPointer, *ssa.MultiConvert:
		v := ins.(ssa.Value)
		fr.vals[v] = fr.freshVal(fr.sym(v), v.Type(), fr.cur.reach, st)
	case *ssa.If:
		c := fr.val(x.Cond).C[0]
		b := fr.curBlock
		r1 := q.fresh(fmt.Sprintf("%s_e%d_t", fr.prefix, b.Index), "Bool")
		r2 := q.fresh(fmt.Sprintf("%s_e%d_f", fr.prefix, b.Index), "Bool")
		q.assume("true", sEq(r1, sAnd(fr.cur.reach, c)))
		q.assume("true", sEq(r2, sAnd(fr.cur.reach, sNot(c))))
		fr.edgeOut[b] = []flow{{reach: r1, st: st}, {reach: r2, st: st}}
	case *ssa.Jump:
		fr.edgeOut[fr.curBlock] = []flow{{reach: fr.cur.reach, st: st}}
	case *ssa.Return:
		var rs []Val
		for _, r := range x.Results {
			rs = append(rs, fr.val(r))
		}
		fr.rets = append(fr.rets, retRec{reach: fr.cur.reach, st: st.clone(), results: rs, ins: x})
		fr.edgeOut[fr.curBlock] = nil
		if fr.parent == nil && q.opts.OnReturn != nil {
			q.opts.OnReturn(fr, x, rs)
		}
	case *ssa.Panic:
		fr.panics = append(fr.panics, flow{reach: fr.cur.reach, st: st.clone()})
		if fr.q.opts.Safety && (fr.q.opts.SafetyKinds == nil || fr.q.opts.SafetyKinds["panic"]) {
			fr.q.addObligation(fr, "panic", "panic("+describe(x.X)+")", x.Pos(), fr.cur.reach, "false")
		}
		fr.edgeOut[fr.curBlock] = nil
		fr.cur.reach = "false"
	default:
		q.note(fmt.Sprintf("unmodelled instruction %T in %s", ins, fnKey(fr.fn)))
		if v, ok := ins.(ssa.Value); ok {
			fr.vals[v] = fr.freshVal(fr.sym(v), v.Type(), fr.cur.reach, st)
		}
	}
}

func (fr *Frame) loopOf(b *ssa.BasicBlock) *loopInfo {
	for _, li := range fr.loops {
		if li.blocks[b] {
			return li
		}
	}
	return nil
}

func isUnsigned(t types.Type) bool {
	b, ok := underlying(t).(*types.Basic)
	return ok && b.Info()&types.IsUnsigned != 0
}

func bitsOf(t types.Type) int {
	b, ok := underlying(t).(*types.Basic)
	if !ok {
		return 64
	}
	switch b.Kind() {
	case types.Int8, types.Uint8:
		return 8
	case types.Int16, types.Uint16:
		return 16
	case types.Int32, types.Uint32:
		return 32
	}
	return 64
}

func pow2(n int) string {
	s := "1"
	// big power as decimal string via repeated doubling
	digits := []byte{1}
	for i := 0; i < n; i++ {
		carry := byte(0)
		for j := range digits {
			d := digits[j]*2 + carry
			digits[j] = d % 10
			carry = d / 10
		}
		if carry > 0 {
			digits = append(digits, carry)
		}
	}
	var b strings.Builder
	for j := len(digits) - 1; j >= 0; j-- {
		b.WriteByte('0' + digits[j])
	}
	s = b.String()
	return s
}

func (fr *Frame) uf(name string, args []string, sorts []string, ret string) string {
	fr.q.declareFun(name, sorts, ret)
	return "(" + name + " " + strings.Join(args, " ") + ")"
}

func (fr *Frame) binop(x *ssa.BinOp) Val {
	a, b := fr.val(x.X), fr.val(x.Y)
	t := x.X.Type()
	l := layoutOf(t)
	srt := "Int"
	if len(l.leaves) == 1 {
		srt = l.leaves[0].Sort
	}
	eq := func() string {
		var cs []string
		n := len(a.C)
		if len(b.C) < n {
			n = len(b.C)
		}
		for i := 0; i < n; i++ {
			cs = append(cs, sEq(a.C[i], b.C[i]))
		}
		return sAnd(cs...)
	}
	switch x.Op {
	case token.EQL:
		return Val{C: []string{eq()}}
	case token.NEQ:
		return Val{C: []string{sNot(eq())}}
	}
	if len(a.C) != 1 || len(b.C) != 1 {
		return fr.freshVal(fr.sym(x), x.Type(), "true", nil)
	}
	A, B := a.C[0], b.C[0]
	switch srt {
	case "Bool":
		switch x.Op {
		case token.AND, token.LAND:
			return Val{C: []string{sAnd(A, B)}}
		case token.OR, token.LOR:
			return Val{C: []string{sOr(A, B)}}
		case token.XOR:
			return Val{C: []string{"(xor " + A + " " + B + ")"}}
		}
	case "Str":
		switch x.Op {
		case token.ADD:
			fr.tick("(+ 1 (slen " + A + ") (slen " + B + "))") // concatenation copies both operands
			return Val{C: []string{"(scat " + A + " " + B + ")"}}
		case token.LSS, token.LEQ, token.GTR, token.GEQ:
			r := fr.uf("str_lt", []string{A, B}, []string{"Str", "Str"}, "Bool")
			r2 := fr.uf("str_lt", []string{B, A}, []string{"Str", "Str"}, "Bool")
			switch x.Op {
			case token.LSS:
				return Val{C: []string{r}}
			case token.GTR:
				return Val{C: []string{r2}}
			case token.LEQ:
				return Val{C: []string{sNot(r2)}}
			default:
				return Val{C: []string{sNot(r)}}
			}
		}
	case "Real":
		switch x.Op {
		case token.ADD:
			return Val{C: []string{"(+ " + A + " " + B + ")"}}
		case token.SUB:
			return Val{C: []string{"(- " + A + " " + B + ")"}}
		case token.MUL:
			return Val{C: []string{"(* " + A + " " + B + ")"}}
		case token.QUO:
			return Val{C: []string{"(/ " + A + " " + B + ")"}}
		case token.LSS:
			return Val{C: []string{"(< " + A + " " + B + ")"}}
		case token.LEQ:
			return Val{C: []string{"(<= " + A + " " + B + ")"}}
		case token.GTR:
			return Val{C: []string{"(> " + A + " " + B + ")"}}
		case token.GEQ:
			return Val{C: []string{"(>= " + A + " " + B + ")"}}
		}
	case "Int":
		wrap := func(r string) string {
			if isUnsigned(x.Type()) {
				return "(mod " + r + " " + pow2(bitsOf(x.Type())) + ")"
			}
			if fr.q.opts.Overflow {
				if lo, hi, ok := intRange(x.Type()); ok {
					fr.safety("ovf", describe(x), x.Pos(), fmt.Sprintf("(and (<= %s %s) (<= %s %s))", lo, r, r, hi))
				}
			}
			return r
		}
		switch x.Op {
		case token.ADD:
			return Val{C: []string{wrap("(+ " + A + " " + B + ")")}}
		case token.SUB:
			return Val{C: []string{wrap("(- " + A + " " + B + ")")}}
		case token.MUL:
			return Val{C: []string{wrap("(* " + A + " " + B + ")")}}
		case token.QUO:
			fr.safety("div", describe(x), x.Pos(), "(not (= "+B+" 0))")
			return Val{C: []string{"(goDiv " + A + " " + B + ")"}}
		case token.REM:
			fr.safety("div", describe(x), x.Pos(), "(not (= "+B+" 0))")
			return Val{C: []string{"(goMod " + A + " " + B + ")"}}
		case token.LSS:
			return Val{C: []string{"(< " + A + " " + B + ")"}}
		case token.LEQ:
			return Val{C: []string{"(<= " + A + " " + B + ")"}}
		case token.GTR:
			return Val{C: []string{"(> " + A + " " + B + ")"}}
		case token.GEQ:
			return Val{C: []string{"(>= " + A + " " + B + ")"}}
		case token.SHL:
			if c, ok := x.Y.(*ssa.Const); ok {
				if n, ok := constInt64(c); ok && n >= 0 && n < 63 {
					return Val{C: []string{wrap("(* " + A + " " + pow2(int(n)) + ")")}}
				}
			}
		case token.SHR:
			if c, ok := x.Y.(*ssa.Const); ok {
				if n, ok := constInt64(c); ok && n >= 0 && n < 63 {
					return Val{C: []string{"(div " + A + " " + pow2(int(n)) + ")"}}
				}
			}
		case token.AND:
			r := fr.uf("bit_and", []string{A, B}, []string{"Int", "Int"}, "Int")
			// x & c with c >= 0 is within [0,c]
			if c, ok := x.Y.(*ssa.Const); ok {
				if n, ok := constInt64(c); ok && n >= 0 {
					fr.q.assume("true", fmt.Sprintf("(and (<= 0 %s) (<= %s %d))", r, r, n))
				}
			}
			return Val{C: []string{r}}
		}
		// other bit operations: uninterpreted, result within the type's range
		name := "bit_" + sanitize(x.Op.String())
		switch x.Op {
		case token.OR:
			name = "bit_or"
		case token.XOR:
			name = "bit_xor"
		case token.SHL:
			name = "bit_shl"
		case token.SHR:
			name = "bit_shr"
		case token.AND_NOT:
			name = "bit_andnot"
		}
		r := fr.uf(name, []string{A, B}, []string{"Int", "Int"}, "Int")
		if lo, hi, ok := intRange(x.Type()); ok {
			fr.q.assume("true", fmt.Sprintf("(and (<= %s %s) (<= %s %s))", lo, r, r, hi))
		}
		return Val{C: []string{r}}
	}
	fr.q.note(fmt.Sprintf("unmodelled binop %s on %s", x.Op, srt))
	return fr.freshVal(fr.sym(x), x.Type(), "true", nil)
}

func (fr *Frame) unop(x *ssa.UnOp) {
	a := fr.val(x.X)
	switch x.Op {
	case token.MUL:
		fr.nilCheck(x.X, "*"+describe(x.X), x.Pos())
		v := fr.loadVia(x.X, x.Type())
		fr.setVal(x, v)
		fr.typeInv(fr.vals[x], x.Type(), fr.cur.reach, fr.cur.st)
		if g, ok := x.X.(*ssa.Global); ok {
			fr.globalFacts(g, fr.vals[x])
		}
	case token.NOT:
		fr.vals[x] = Val{C: []string{sNot(a.C[0])}}
	case token.SUB:
		if layoutOf(x.Type()).leaves[0].Sort == "Real" {
			fr.setVal(x, Val{C: []string{"(- " + a.C[0] + ")"}})
		} else if isUnsigned(x.Type()) {
			fr.setVal(x, Val{C: []string{"(mod (- " + a.C[0] + ") " + pow2(bitsOf(x.Type())) + ")"}})
		} else {
			fr.setVal(x, Val{C: []string{"(- " + a.C[0] + ")"}})
		}
	case token.XOR:
		r := fr.uf("bit_not", []string{a.C[0]}, []string{"Int"}, "Int")
		fr.setVal(x, Val{C: []string{r}})
	default:
		fr.q.note("unmodelled unop " + x.Op.String())
		if x.Op == token.ARROW {
			fr.havocMod(fr.cur.st, &ModSet{All: true})
		}
		fr.vals[x] = fr.freshVal(fr.sym(x), x.Type(), fr.cur.reach, fr.cur.st)
	}
}

func (fr *Frame) convert(x *ssa.Convert) {
	src, dst := x.X.Type(), x.Type()
	a := fr.val(x.X)
	su, du := underlying(src), underlying(dst)
	sb, sok := su.(*types.Basic)
	db, dok := du.(*types.Basic)
	switch {
	case sok && dok && sb.Info()&types.IsInteger != 0 && db.Info()&types.IsInteger != 0:
		lo, hi, _ := intRange(dst)
		slo, shi, _ := intRange(src)
		_ = slo
		_ = shi
		// identity if the source range fits, else wrap
		if fits(src, dst) {
			fr.vals[x] = a
			return
		}
		if isUnsigned(dst) {
			fr.setVal(x, Val{C: []string{"(mod " + a.C[0] + " " + pow2(bitsOf(dst)) + ")"}})
			return
		}
		// signed narrowing: value if in range, else unconstrained in range
		r := fr.q.fresh(fr.sym(x), "Int")
		fr.q.assume("true", fmt.Sprintf("(and (<= %s %s) (<= %s %s) (=> (and (<= %s %s) (<= %s %s)) (= %s %s)))", lo, r, r, hi, lo, a.C[0], a.C[0], hi, r, a.C[0]))
		fr.vals[x] = Val{C: []string{r}}
	case sok && dok && sb.Info()&types.IsInteger != 0 && db.Info()&types.IsFloat != 0:
		fr.setVal(x, Val{C: []string{"(to_real " + a.C[0] + ")"}})
	case sok && dok && sb.Info()&types.IsFloat != 0 && db.Info()&types.IsInteger != 0:
		fr.vals[x] = fr.freshVal(fr.sym(x), dst, "true", nil)
	case sok && dok && sb.Info()&types.IsFloat != 0 && db.Info()&types.IsFloat != 0:
		fr.vals[x] = a
	case sok && dok && sb.Info()&types.IsString != 0 && db.Info()&types.IsString != 0:
		fr.vals[x] = a
	case dok && db.Info()&types.IsString != 0 && sok && sb.Info()&types.IsInteger != 0:
		// string(rune)
		r := fr.uf("str_of_rune", []string{a.C[0]}, []string{"Int"}, "Str")
		fr.q.assume("true", fmt.Sprintf("(and (<= 1 (slen %s)) (<= (slen %s) 4) (=> (and (<= 0 %s) (< %s 128)) (and (= (slen %s) 1) (= (sat %s 0) %s))))", r, r, a.C[0], a.C[0], r, r, a.C[0]))
		fr.vals[x] = Val{C: []string{r}}
	case dok && db.Info()&types.IsString != 0:
		// string([]byte) or string([]rune)
		if sl, ok := su.(*types.Slice); ok {
			s := fr.q.fresh(fr.sym(x), "Str")
			if eb, ok := underlying(sl.Elem()).(*types.Basic); ok && eb.Kind() == types.Uint8 {
				lf := layoutOf(sl.Elem()).leaves[0]
				famLeafSort[lf.Arr] = lf.Sort
				arr := fr.q.get(fr.cur.st, lf.Arr)
				fr.q.assume(fr.cur.reach, fmt.Sprintf("(= (slen %s) %s)", s, a.C[1]))
				fr.tick("(+ 1 " + a.C[1] + ")") // the conversion copies the bytes
				if fr.q.opts.OnBytesToString != nil {
					fr.q.opts.OnBytesToString(fr, x, a, Val{C: []string{s}})
				}
				if !fr.q.optsNoContents() {
					fr.q.assume(fr.cur.reach, fmt.Sprintf("(forall ((i Int)) (! (=> (and (<= 0 i) (< i %s)) (= (sat %s i) (select %s (+ %s i)))) :pattern ((sat %s i))))", a.C[1], s, arr, a.C[0], s))
				}
			}
			fr.vals[x] = Val{C: []string{s}}
			return
		}
		fr.vals[x] = fr.freshVal(fr.sym(x), dst, "true", nil)
	case sok && sb.Info()&types.IsString != 0:
		// []byte(s) / []rune(s)
		if sl, ok := du.(*types.Slice); ok {
			if eb, ok := underlying(sl.Elem()).(*types.Basic); ok && eb.Kind() == types.Uint8 {
				n := "(slen " + a.C[0] + ")"
				fr.tick("(+ 1 " + n + ")")
				p := fr.allocN(fr.cur.st, n, 1)
				lf := layoutOf(sl.Elem()).leaves[0]
				famLeafSort[lf.Arr] = lf.Sort
				old := fr.q.get(fr.cur.st, lf.Arr)
				na := fr.q.fresh(smtSym(lf.Arr)+"@cv", famSort(fr.q, lf.Arr))
				if !fr.q.optsNoContents() {
					fr.q.assume(fr.cur.reach, fmt.Sprintf("(forall ((i Int)) (! (= (select %s i) (ite (and (<= %s i) (< i (+ %s %s))) (sat %s (- i %s)) (select %s i))) :pattern ((select %s i))))", na, p, p, n, a.C[0], p, old, na))
				}
				fr.cur.st.v[lf.Arr] = na
				fr.setVal(x, Val{C: []string{p, n, n}})
				if fr.q.opts.OnStringToBytes != nil {
					fr.q.opts.OnStringToBytes(fr, x, a, Val{C: []string{p, n, n}})
				}
				return
			}
		}
		v := fr.freshVal(fr.sym(x), dst, fr.cur.reach, fr.cur.st)
		fr.vals[x] = v
	default:
		if len(layoutOf(src).leaves) == len(layoutOf(dst).leaves) {
			fr.vals[x] = a
		} else {
			fr.vals[x] = fr.freshVal(fr.sym(x), dst, "true", nil)
		}
	}
}

func fits(src, dst types.Type) bool {
	sb := underlying(src).(*types.Basic)
	db := underlying(dst).(*types.Basic)
	sU, dU := sb.Info()&types.IsUnsigned != 0, db.Info()&types.IsUnsigned != 0
	sBits, dBits := bitsOf(src), bitsOf(dst)
	switch {
	case sU == dU:
		return sBits <= dBits
	case sU && !dU:
		return sBits < dBits
	}
	return false
}

// ---------- interfaces ----------

func payloadKind(t types.Type) string {
	l := layoutOf(t)
	if len(l.leaves) == 1 {
		switch l.leaves[0].Sort {
		case "Int":
			return "int"
		case "Bool":
			return "bool"
		case "Str":
			return "str"
		case "Real":
			return "real"
		}
	}
	return "box"
}

func (fr *Frame) makeInterface(t types.Type, v Val) Val {
	if _, ok := underlying(t).(*types.Interface); ok {
		return v
	}
	tag := sInt(int64(typeID(t)))
	switch payloadKind(t) {
	case "int":
		return Val{C: []string{tag, v.C[0]}}
	case "bool":
		return Val{C: []string{tag, sIte(v.C[0], "1", "0")}}
	case "str":
		return Val{C: []string{tag, "(sbox " + v.C[0] + ")"}}
	case "real":
		return Val{C: []string{tag, fr.uf("rbox", []string{v.C[0]}, []string{"Real"}, "Int")}}
	}
	a := fr.alloc(fr.cur.st, cellsOf(t))
	fr.store(fr.cur.st, a, t, v)
	return Val{C: []string{tag, a}}
}

func (fr *Frame) unboxPayload(t types.Type, payload string) Val {
	switch payloadKind(t) {
	case "int":
		return Val{C: []string{payload}}
	case "bool":
		return Val{C: []string{"(= " + payload + " 1)"}}
	case "str":
		return Val{C: []string{"(sunbox " + payload + ")"}}
	case "real":
		return Val{C: []string{fr.uf("runbox", []string{payload}, []string{"Int"}, "Real")}}
	}
	return fr.load(fr.cur.st, payload, t)
}

func (fr *Frame) tagIs(tag string, t types.Type) string {
	if it, ok := underlying(t).(*types.Interface); ok {
		if it.NumMethods() == 0 {
			return "(not (= " + tag + " 0))"
		}
		impls := fr.q.eng.implementers(it, typeKey(t))
		var cs []string
		for _, im := range impls {
			cs = append(cs, fmt.Sprintf("(= %s %d)", tag, typeID(im)))
		}
		if len(cs) > 200 {
			// too many: abstract with an uninterpreted predicate per interface
			return sAnd("(not (= "+tag+" 0))", fr.uf("impl_"+shortType(t), []string{tag}, []string{"Int"}, "Bool"))
		}
		// Types outside the loaded program (std errors etc.) may implement it too: keep it open-world for
		// interfaces that non-repo types can satisfy (error, fmt.Stringer...): add an uninterpreted escape.
		if !strings.HasPrefix(typeKey(t), modPath) {
			cs = append(cs, sAnd("(not (= "+tag+" 0))", fr.uf("impl_"+shortType(t), []string{tag}, []string{"Int"}, "Bool")))
		}
		return sOr(cs...)
	}
	return fmt.Sprintf("(= %s %d)", tag, typeID(t))
}

func (fr *Frame) typeAssert(x *ssa.TypeAssert) {
	iv := fr.val(x.X)
	tag, payload := iv.C[0], iv.C[1]
	ok := fr.tagIs(tag, x.AssertedType)
	var v Val
	if _, isI := underlying(x.AssertedType).(*types.Interface); isI {
		v = Val{C: []string{tag, payload}}
	} else {
		v = fr.unboxPayload(x.AssertedType, payload)
	}
	if x.CommaOk {
		z := zeroVal(x.AssertedType)
		out := Val{}
		for i := range v.C {
			out.C = append(out.C, sIte(ok, v.C[i], z.C[i]))
		}
		out.C = append(out.C, ok)
		fr.setVal(x, out)
		// pointer payloads of repo types are valid objects
		return
	}
	fr.safety("assert", describe(x), x.Pos(), ok)
	fr.setVal(x, v)
}

// ---------- indexing & slicing ----------

func (fr *Frame) indexAddr(x *ssa.IndexAddr) {
	base := fr.val(x.X)
	i := fr.val(x.Index).C[0]
	switch t := underlying(x.X.Type()).(type) {
	case *types.Slice:
		fr.safety("idx", describe(x), x.Pos(), fmt.Sprintf("(and (<= 0 %s) (< %s %s))", i, i, base.C[1]))
		fr.setVal(x, Val{C: []string{sAdd(base.C[0], sMulC(i, cellsOf(t.Elem())))}})
	case *types.Pointer:
		arr := underlying(t.Elem()).(*types.Array)
		fr.nilCheck(x.X, describe(x.X), x.Pos())
		fr.safety("idx", describe(x), x.Pos(), fmt.Sprintf("(and (<= 0 %s) (< %s %d))", i, i, arr.Len()))
		fr.setVal(x, Val{C: []string{sAdd(base.C[0], sMulC(i, cellsOf(arr.Elem())))}})
	default:
		fr.q.note("IndexAddr on " + x.X.Type().String())
		fr.vals[x] = fr.freshVal(fr.sym(x), x.Type(), "true", nil)
	}
}

func (fr *Frame) index(x *ssa.Index) {
	base := fr.val(x.X)
	i := fr.val(x.Index).C[0]
	switch t := underlying(x.X.Type()).(type) {
	case *types.Basic: // string
		fr.safety("idx", describe(x), x.Pos(), fmt.Sprintf("(and (<= 0 %s) (< %s (slen %s)))", i, i, base.C[0]))
		fr.setVal(x, Val{C: []string{"(sat " + base.C[0] + " " + i + ")"}})
	case *types.Array:
		n := int(t.Len())
		fr.safety("idx", describe(x), x.Pos(), fmt.Sprintf("(and (<= 0 %s) (< %s %d))", i, i, n))
		el := len(layoutOf(t.Elem()).leaves)
		if n <= maxInlineArray && n > 0 {
			out := Val{}
			for c := 0; c < el; c++ {
				term := base.C[(n-1)*el+c]
				for k := n - 2; k >= 0; k-- {
					term = sIte(fmt.Sprintf("(= %s %d)", i, k), base.C[k*el+c], term)
				}
				out.C = append(out.C, term)
			}
			fr.setVal(x, out)
			return
		}
		fr.vals[x] = fr.freshVal(fr.sym(x), x.Type(), "true", nil)
	default:
		fr.vals[x] = fr.freshVal(fr.sym(x), x.Type(), "true", nil)
	}
}

func (fr *Frame) lookup(x *ssa.Lookup) {
	base := fr.val(x.X)
	if b, ok := underlying(x.X.Type()).(*types.Basic); ok && b.Info()&types.IsString != 0 {
		i := fr.val(x.Index).C[0]
		fr.safety("idx", describe(x), x.Pos(), fmt.Sprintf("(and (<= 0 %s) (< %s (slen %s)))", i, i, base.C[0]))
		fr.setVal(x, Val{C: []string{"(sat " + base.C[0] + " " + i + ")"}})
		return
	}
	fr.mapLookup(x, base)
}

func (fr *Frame) slice(x *ssa.Slice) {
	base := fr.val(x.X)
	var lo, hi, mx string
	if x.Low != nil {
		lo = fr.val(x.Low).C[0]
	} else {
		lo = "0"
	}
	switch t := underlying(x.X.Type()).(type) {
	case *types.Basic: // string
		if x.High != nil {
			hi = fr.val(x.High).C[0]
		} else {
			hi = "(slen " + base.C[0] + ")"
		}
		fr.safety("slice", describe(x), x.Pos(), fmt.Sprintf("(and (<= 0 %s) (<= %s %s) (<= %s (slen %s)))", lo, lo, hi, hi, base.C[0]))
		if lo == "0" && x.High == nil {
			fr.vals[x] = base
			return
		}
		fr.setVal(x, Val{C: []string{fmt.Sprintf("(ssub %s %s %s)", base.C[0], lo, hi)}})
	case *types.Slice:
		if x.High != nil {
			hi = fr.val(x.High).C[0]
		} else {
			hi = base.C[1]
		}
		if x.Max != nil {
			mx = fr.val(x.Max).C[0]
		} else {
			mx = base.C[2]
		}
		fr.safety("slice", describe(x), x.Pos(), fmt.Sprintf("(and (<= 0 %s) (<= %s %s) (<= %s %s) (<= %s %s))", lo, lo, hi, hi, mx, mx, base.C[2]))
		stride := cellsOf(t.Elem())
		fr.setVal(x, Val{C: []string{sAdd(base.C[0], sMulC(lo, stride)), "(- " + hi + " " + lo + ")", "(- " + mx + " " + lo + ")"}})
	case *types.Pointer:
		arr := underlying(t.Elem()).(*types.Array)
		n := sInt(arr.Len())
		if x.High != nil {
			hi = fr.val(x.High).C[0]
		} else {
			hi = n
		}
		if x.Max != nil {
			mx = fr.val(x.Max).C[0]
		} else {
			mx = n
		}
		fr.nilCheck(x.X, describe(x.X), x.Pos())
		fr.safety("slice", describe(x), x.Pos(), fmt.Sprintf("(and (<= 0 %s) (<= %s %s) (<= %s %s) (<= %s %s))", lo, lo, hi, hi, mx, mx, n))
		stride := cellsOf(arr.Elem())
		fr.setVal(x, Val{C: []string{sAdd(base.C[0], sMulC(lo, stride)), "(- " + hi + " " + lo + ")", "(- " + mx + " " + lo + ")"}})
	default:
		fr.vals[x] = fr.freshVal(fr.sym(x), x.Type(), "true", nil)
	}
}

// zeroRange: cells [a, a+n*stride) hold zero values of elem type
func (fr *Frame) zeroRange(st *State, a, n string, elem types.Type) {
	l := layoutOf(elem)
	for _, lf := range l.leaves {
		famLeafSort[lf.Arr] = lf.Sort
		old := fr.q.get(st, lf.Arr)
		na := fr.q.fresh(smtSym(lf.Arr)+"@z", famSort(fr.q, lf.Arr))
		if fr.q.optsNoContents() {
			st.v[lf.Arr] = na
			continue
		}
		fr.q.assume(fr.cur.reach, fmt.Sprintf("(forall ((i Int)) (! (= (select %s i) (ite (and (<= %s i) (< i (+ %s %s))) %s (select %s i))) :pattern ((select %s i))))",
			na, a, a, sMulC(n, l.cells), zeroOf(lf.Sort), old, na))
		st.v[lf.Arr] = na
	}
}

func (fr *Frame) nextFacts(x *ssa.Next, v Val) {
	// (ok, key, value): for strings key in range
	if x.IsString {
		if r, ok := x.Iter.(*ssa.Range); ok {
			s := fr.val(r.X).C[0]
			fr.q.assume(fr.cur.reach, fmt.Sprintf("(=> %s (and (<= 0 %s) (< %s (slen %s))))", v.C[0], v.C[1], v.C[1], s))
		}
	}
}

// tick: charge steps to the ghost cost counter (cost mode only)
func (fr *Frame) tick(t string) {
	if fr.q.opts == nil || !fr.q.opts.Cost || fr.cur.st == nil {
		return
	}
	fr.cur.st.v["$ticks"] = "(+ " + fr.q.get(fr.cur.st, "$ticks") + " " + t + ")"
}
