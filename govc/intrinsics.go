package main

// Assumed contracts on dependencies (DESIGN 1.2): every entry here is trusted,
// listed verbatim in evidence under trusted_base.

import (
	"fmt"
	"go/token"
	"go/types"
	"regexp/syntax"
	"strings"

	"golang.org/x/tools/go/ssa"
)

var purePkgs = map[string]bool{
	"strings": true, "strconv": true, "unicode": true, "unicode/utf8": true, "unicode/utf16": true,
	"errors": true, "math": true, "math/bits": true, "path": true, "path/filepath": true, "sort": true, "slices": true,
	"bytes": true, "time": true, "regexp": true, "reflect": true, "os": false,
}

// functions of pure packages that nevertheless write through their arguments
var impureNames = map[string]bool{
	"sort.Slice": true, "sort.Sort": true, "sort.Strings": true, "sort.Ints": true, "sort.SliceStable": true, "sort.Stable": true,
	"slices.Sort": true, "slices.SortFunc": true, "slices.Reverse": true,
	"time.Sleep": true, "time.AfterFunc": true, "time.NewTimer": true, "time.After": true,
	"utf8.EncodeRune": true, "unicode/utf8.EncodeRune": true,
}

var trustedUsed = map[string]bool{}

func funcPkgPath(fn *ssa.Function) string {
	if fn.Pkg != nil {
		return fn.Pkg.Pkg.Path()
	}
	if recv := fn.Signature.Recv(); recv != nil {
		t := recv.Type()
		if p, ok := t.(*types.Pointer); ok {
			t = p.Elem()
		}
		if n, ok := t.(*types.Named); ok && n.Obj().Pkg() != nil {
			return n.Obj().Pkg().Path()
		}
	}
	if fn.Package() != nil {
		return fn.Package().Pkg.Path()
	}
	return ""
}

func isPureStd(fn *ssa.Function) bool {
	p := funcPkgPath(fn)
	if strings.HasPrefix(p, modPath) {
		return false
	}
	full := fn.String()
	if impureNames[full] {
		return false
	}
	if fn.Signature.Recv() != nil {
		// methods: pure only for value-like receivers in pure packages (time.Time, regexp.Regexp matchers, strings.Reader excluded)
		switch {
		case strings.HasPrefix(full, "(time.Time)."), strings.HasPrefix(full, "(time.Duration)."), strings.HasPrefix(full, "(*regexp.Regexp).Match"),
			strings.HasPrefix(full, "(*regexp.Regexp).Find"), strings.HasPrefix(full, "(*regexp.Regexp).Replace"), strings.HasPrefix(full, "(*regexp.Regexp).String"),
			strings.HasPrefix(full, "(*strings.Replacer).Replace"), strings.HasPrefix(full, "(reflect."), strings.HasPrefix(full, "(*errors."), strings.HasPrefix(full, "(*fmt.wrapError)"):
			return true
		}
		return false
	}
	if purePkgs[p] {
		return true
	}
	if p == "fmt" {
		n := fn.Name()
		return strings.HasPrefix(n, "Sprint") || n == "Errorf" || n == "Sprintf"
	}
	return false
}

// intrinsicFuncMod: write set for body-less or trusted-pure functions (nil = unknown)
func intrinsicFuncMod(fn *ssa.Function) *ModSet {
	if isPureStd(fn) {
		return &ModSet{Arrs: map[string]bool{}, Alloc: true}
	}
	full := fn.String()
	switch {
	case strings.HasPrefix(full, "(*strings.Builder)."), strings.HasPrefix(full, "(*bytes.Buffer)."),
		full == "fmt.Fprintf", full == "fmt.Fprint", full == "fmt.Fprintln":
		// writers: only the builder/buffer's own fields and byte storage change (fmt.Fprint* are assumed to be
		// given a strings.Builder, bytes.Buffer or an OS stream, which has no modelled heap)
		ms := &ModSet{Arrs: map[string]bool{}, Alloc: true}
		for _, p := range []string{"strings", "bytes"} {
			if pk := findStdType(fn, p); pk != nil {
				for _, a := range storeArrays(pk) {
					ms.Arrs[a] = true
				}
			}
		}
		ms.Arrs["E|uint8"] = true
		return ms
	case full == "fmt.Sscanf", full == "fmt.Sscan", full == "fmt.Sscanln":
		// writes only through its pointer arguments, which point to scalar cells
		ms := &ModSet{Arrs: map[string]bool{}, Alloc: true}
		for _, b := range []types.BasicKind{types.Int, types.Int8, types.Int16, types.Int32, types.Int64, types.Uint, types.Uint8, types.Uint16, types.Uint32, types.Uint64, types.Float32, types.Float64, types.String, types.Bool} {
			for _, a := range storeArrays(types.Typ[b]) {
				ms.Arrs[a] = true
				famLeafSort[a] = layoutOf(types.Typ[b]).leaves[0].Sort
			}
		}
		return ms
	case strings.HasPrefix(full, "os."), strings.HasPrefix(full, "(*os.File)."), strings.HasPrefix(full, "io/fs."), strings.HasPrefix(full, "(*os."),
		strings.HasPrefix(full, "(io/fs."), strings.HasPrefix(full, "(os."):
		// the file system is not part of the modelled heap: these calls allocate results and touch nothing else
		return &ModSet{Arrs: map[string]bool{}, Alloc: true}
	case strings.HasPrefix(full, "(*log/slog.Logger)."), strings.HasPrefix(full, "log."), strings.HasPrefix(full, "(*log.Logger)."):
		return &ModSet{Arrs: map[string]bool{}, Alloc: true}
	case strings.HasPrefix(full, "sync/atomic."), strings.HasPrefix(full, "(*sync/atomic."),
		strings.HasPrefix(full, "(*sync.Mutex)."), strings.HasPrefix(full, "(*sync.RWMutex)."), strings.HasPrefix(full, "(*sync.Pool)."),
		strings.HasPrefix(full, "(*sync.Once)."), strings.HasPrefix(full, "(*sync.WaitGroup)."), strings.HasPrefix(full, "runtime."):
		return &ModSet{Arrs: map[string]bool{}, Alloc: true}
	}
	return nil
}

func intrinsicInvokeMod(c *ssa.CallCommon) *ModSet {
	key := typeKey(c.Value.Type()) + "." + c.Method.Name()
	if strings.HasPrefix(key, "io/fs.FileInfo.") || strings.HasPrefix(key, "os.FileInfo.") || strings.HasPrefix(key, "os.DirEntry.") || strings.HasPrefix(key, "io/fs.DirEntry.") || strings.HasPrefix(key, "io/fs.FileMode.") {
		return &ModSet{Arrs: map[string]bool{}, Alloc: true} // file metadata accessors: no effect on the modelled heap
	}
	switch key {
	case "error.Error", "fmt.Stringer.String", "context.Context.Err", "context.Context.Done", "context.Context.Deadline", "context.Context.Value":
		return &ModSet{Arrs: map[string]bool{}, Alloc: true}
	}
	return nil
}

func (e *Engine) fixPureModsets() {
	// pure std functions have bodies (loaded from source) whose computed sets are noisy: override.
	for _, fn := range e.allFns {
		if im := intrinsicFuncMod(fn); im != nil {
			e.modsets[fn] = im
		}
	}
}

func scalarArgs(c *ssa.CallCommon) bool {
	for _, a := range c.Args {
		switch underlying(a.Type()).(type) {
		case *types.Basic:
		default:
			return false
		}
	}
	return true
}

func (fr *Frame) intrinsic(ins ssa.Instruction, callee *ssa.Function, c *ssa.CallCommon, args []Val, rt types.Type) (Val, bool) {
	q := fr.q
	st := fr.cur.st
	full := callee.String()
	reach := fr.cur.reach
	switch full {
	case "unicode/utf8.DecodeRune", "unicode/utf8.DecodeRuneInString", "unicode/utf8.DecodeLastRune", "unicode/utf8.DecodeLastRuneInString":
		trustedUsed["unicode/utf8.DecodeRune*(p): 0<=size<=4, size<=len(p), size==0 <=> len(p)==0, 0<=r<=0x10FFFF, p[0]<0x80 => (r==p[0] && size==1), p[0]>=0x80 => r>=0x80"] = true
		r := q.fresh(fr.prefix+"_rune", "Int")
		sz := q.fresh(fr.prefix+"_rsize", "Int")
		var ln, first string
		if strings.Contains(full, "InString") {
			ln = "(slen " + args[0].C[0] + ")"
			if strings.Contains(full, "Last") {
				first = "(sat " + args[0].C[0] + " (- " + ln + " 1))"
			} else {
				first = "(sat " + args[0].C[0] + " 0)"
			}
		} else {
			ln = args[0].C[1]
			lf := layoutOf(types.Typ[types.Uint8]).leaves[0]
			famLeafSort[lf.Arr] = lf.Sort
			if strings.Contains(full, "Last") {
				first = fmt.Sprintf("(select %s (+ %s (- %s 1)))", q.get(st, lf.Arr), args[0].C[0], ln)
			} else {
				first = fmt.Sprintf("(select %s %s)", q.get(st, lf.Arr), args[0].C[0])
			}
		}
		q.assume(reach, fmt.Sprintf("(and (<= 0 %s) (<= %s 4) (<= %s %s) (= (= %s 0) (= %s 0)) (<= 0 %s) (<= %s 1114111))", sz, sz, sz, ln, sz, ln, r, r))
		q.assume(reach, fmt.Sprintf("(=> (> %s 0) (ite (< %s 128) (and (= %s %s) (= %s 1)) (>= %s 128)))", ln, first, r, first, sz, r))
		q.assume(reach, fmt.Sprintf("(=> (= %s 0) (= %s 65533))", ln, r))
		if !strings.Contains(full, "InString") && !strings.Contains(full, "Last") && !q.optsNoContents() {
			// the bytes of a multi-byte character after its first are continuation bytes (0x80..0xBF)
			lf := layoutOf(types.Typ[types.Uint8]).leaves[0]
			arr := q.get(st, lf.Arr)
			for k := 1; k <= 3; k++ {
				q.assume(reach, fmt.Sprintf("(=> (> %s %d) (>= (select %s (+ %s %d)) 128))", sz, k, arr, args[0].C[0], k))
			}
			trustedUsed["unicode/utf8.DecodeRune(p): when size > k (k = 1..3), p[k] is a continuation byte (>= 0x80)"] = true
		}
		return Val{C: []string{r, sz}}, true
	case "unicode/utf8.RuneLen":
		r := fr.uf("utf8_RuneLen", []string{args[0].C[0]}, []string{"Int"}, "Int")
		q.assume("true", fmt.Sprintf("(and (<= (- 1) %s) (<= %s 4) (not (= %s 0)) (=> (and (<= 0 %s) (< %s 128)) (= %s 1)))", r, r, r, args[0].C[0], args[0].C[0], r))
		trustedUsed["unicode/utf8.RuneLen(r) in {-1,1,2,3,4}, ==1 for 0<=r<128"] = true
		return Val{C: []string{r}}, true
	case "unicode/utf8.RuneCountInString", "unicode/utf8.RuneCount":
		var ln string
		if strings.HasSuffix(full, "InString") {
			ln = "(slen " + args[0].C[0] + ")"
		} else {
			ln = args[0].C[1]
		}
		r := q.fresh(fr.prefix+"_rcount", "Int")
		q.assume("true", fmt.Sprintf("(and (<= 0 %s) (<= %s %s) (=> (> %s 0) (> %s 0)))", r, r, ln, ln, r))
		trustedUsed["unicode/utf8.RuneCount*(s): 0<=n<=len(s), n>0 iff len(s)>0"] = true
		return Val{C: []string{r}}, true
	case "(*sync.Pool).Get":
		trustedUsed["(*sync.Pool).Get returns an arbitrary value previously Put or produced by New (result unconstrained)"] = true
		v := fr.freshVal(fr.prefix+"_poolget", rt, reach, st)
		// New may allocate
		old := q.get(st, "$top")
		n := q.fresh("top", "Int")
		q.assume("true", fmt.Sprintf("(>= %s %s)", n, old))
		st.v["$top"] = n
		return v, true
	case "(*sync.Pool).Put", "(*sync.Mutex).Lock", "(*sync.Mutex).Unlock", "(*sync.RWMutex).Lock", "(*sync.RWMutex).Unlock",
		"(*sync.RWMutex).RLock", "(*sync.RWMutex).RUnlock", "(*sync.WaitGroup).Add", "(*sync.WaitGroup).Done", "(*sync.WaitGroup).Wait":
		trustedUsed["sync.Pool/Mutex/WaitGroup operations have no effect on the modelled heap"] = true
		return fr.freshVal(fr.prefix+"_sync", rt, reach, st), true
	case "errors.New", "fmt.Errorf":
		v := fr.freshVal(fr.prefix+"_err", rt, reach, st)
		q.assume(reach, "(not (= "+v.C[0]+" 0))")
		trustedUsed["errors.New / fmt.Errorf return a non-nil error"] = true
		return v, true
	}
	if strings.HasPrefix(full, "sync/atomic.") {
		if v, ok := fr.atomicIntrinsic(ins, callee, c, args, rt); ok {
			return v, true
		}
	}
	if strings.HasPrefix(full, "unicode.Is") || strings.HasPrefix(full, "unicode.To") {
		srt := layoutOf(rt).leaves[0].Sort
		r := fr.uf("u_"+callee.Name(), []string{args[0].C[0]}, []string{"Int"}, srt)
		if srt == "Int" {
			q.assume("true", fmt.Sprintf("(and (<= 0 %s) (<= %s 1114111))", r, r))
		}
		trustedUsed["unicode.Is*/To* are pure functions of the rune (uninterpreted)"] = true
		return Val{C: []string{r}}, true
	}
	if strings.HasPrefix(full, "(*strings.Builder).") && len(args) >= 1 {
		// the builder's length is the len of its buf field; contents are not modelled
		if v, ok := fr.builderOp(callee.Name(), c, args, rt); ok {
			trustedUsed["strings.Builder: WriteString/WriteByte/WriteRune/Write add the length written, String() has the accumulated length, Reset clears it (contents not modelled)"] = true
			return v, true
		}
	}
	if full == "sort.Search" && len(c.Args) == 2 {
		if mc, ok := c.Args[1].(*ssa.MakeClosure); ok {
			// r = sort.Search(n, f): 0 <= r <= n, f(r-1) is false when r > 0, f(r) is true when r < n
			trustedUsed["sort.Search(n, f) returns r in [0, n] with !f(r-1) (r > 0) and f(r) (r < n); f is evaluated on the current state"] = true
			r := q.fresh(fr.prefix+"_search", "Int")
			n := args[0].C[0]
			q.assume(reach, fmt.Sprintf("(and (<= 0 %s) (<= %s (ite (>= %s 0) %s 0)))", r, r, n, n))
			if v, ok := fr.evalClosureAt(ins, mc, []Val{{C: []string{"(- " + r + " 1)"}}}, "(> "+r+" 0)"); ok && len(v.C) == 1 {
				q.assume(sAnd(reach, "(> "+r+" 0)"), sNot(v.C[0]))
			}
			if v, ok := fr.evalClosureAt(ins, mc, []Val{{C: []string{r}}}, "(< "+r+" "+n+")"); ok && len(v.C) == 1 {
				q.assume(sAnd(reach, "(< "+r+" "+n+")"), v.C[0])
			}
			return Val{C: []string{r}}, true
		}
	}
	if isPureStd(callee) {
		trustedUsed["functions of strings, strconv, unicode, utf8, errors, math, bytes, path, sort(search), fmt.Sprint*/Errorf, time, regexp matchers: no effect on the modelled heap, result unconstrained (or an uninterpreted function of scalar arguments)"] = true
		l := layoutOf(rt)
		if len(l.leaves) == 1 && scalarArgs(c) && len(args) > 0 && funcPkgPath(callee) != "time" {
			var as, ss []string
			for i, a := range args {
				as = append(as, a.C...)
				for _, lf := range layoutOf(c.Args[i].Type()).leaves {
					ss = append(ss, lf.Sort)
				}
			}
			r := fr.uf("p_"+sanitize(strings.ReplaceAll(full, "/", "_")), as, ss, l.leaves[0].Sort)
			v := Val{C: []string{r}}
			fr.typeInv(v, rt, "true", nil)
			fr.pureFacts(full, args, v)
			return v, true
		}
		fr.lastCallArgs = c.Args
		v := fr.freshVal(fr.prefix+"_p_"+sanitize(callee.Name()), rt, reach, st)
		old := q.get(st, "$top")
		n := q.fresh("top", "Int")
		q.assume("true", fmt.Sprintf("(>= %s %s)", n, old))
		st.v["$top"] = n
		fr.typeInv(v, rt, reach, st)
		fr.pureFacts(full, args, v)
		return v, true
	}
	return Val{}, false
}

// pureFacts: a few length facts of common string functions
func (fr *Frame) pureFacts(full string, args []Val, v Val) {
	q := fr.q
	switch full {
	case "strings.ToUpper", "strings.ToLower":
		// ASCII-only inputs keep their length; a rune may grow (2 -> 3 bytes) and an invalid byte becomes U+FFFD
		q.assume("true", fmt.Sprintf("(<= (slen %s) (* 3 (slen %s)))", v.C[0], args[0].C[0]))
		trustedUsed["strings.ToUpper/ToLower: len(result) <= 3*len(s)"] = true
	case "fmt.Sprintf", "fmt.Errorf":
		if b, ok := fr.sprintfBound(args); ok && full == "fmt.Sprintf" {
			q.assume("true", fmt.Sprintf("(<= (slen %s) %s)", v.C[0], b))
			trustedUsed["fmt.Sprintf with a constant format: len(result) <= len(format) + lengths of the string operands (x10 under %q/%x/%U) + 40 per operand (operands that are strings, integers, runes, booleans)"] = true
		}
	case "strings.TrimSpace", "strings.TrimRight", "strings.TrimLeft", "strings.Trim", "strings.TrimSuffix", "strings.TrimPrefix":
		q.assume("true", fmt.Sprintf("(<= (slen %s) (slen %s))", v.C[0], args[0].C[0]))
	case "strings.Split":
		q.assume(fr.cur.reach, fmt.Sprintf("(>= %s 1)", v.C[1]))
		// the parts and the separators between them make up the input: for a one-byte separator
		// sum(len(part)+1) == len(s)+1 (also for the empty input, which yields one empty part)
		if sep, ok := fr.lastCallArgs[1].(*ssa.Const); ok && len(constString(sep)) == 1 {
			lf := layoutOf(types.Typ[types.String]).leaves[0]
			famLeafSort[lf.Arr] = lf.Sort
			q.assume(fr.cur.reach, fmt.Sprintf("(= (sumlen1 %s %s %s) (+ (slen %s) 1))", q.get(fr.cur.st, lf.Arr), v.C[0], v.C[1], args[0].C[0]))
			trustedUsed["strings.Split(s, sep) with a one-byte separator: at least one part; sum over parts of (len+1) == len(s)+1"] = true
		}
	case "(*regexp.Regexp).FindStringIndex":
		// nil, or [start, end] of the leftmost match: 0 <= start, start + (shortest possible match) <= end <= len(s)
		if len(v.C) == 3 && len(args) == 2 {
			lf := layoutOf(types.Typ[types.Int]).leaves[0]
			famLeafSort[lf.Arr] = lf.Sort
			arr := q.get(fr.cur.st, lf.Arr)
			minLen := 0
			if len(fr.lastCallArgs) > 0 {
				minLen = regexpMinLen(fr.lastCallArgs[0])
			}
			e0 := fmt.Sprintf("(select %s %s)", arr, v.C[0])
			e1 := fmt.Sprintf("(select %s (+ %s 1))", arr, v.C[0])
			q.assume(fr.cur.reach, fmt.Sprintf("(or (and (= %s 0) (= %s 0)) (and (not (= %s 0)) (= %s 2) (<= 0 %s) (<= (+ %s %d) %s) (<= %s (slen %s))))",
				v.C[0], v.C[1], v.C[0], v.C[1], e0, e0, minLen, e1, e1, args[1].C[0]))
			trustedUsed["(*regexp.Regexp).FindStringIndex(s): nil, or [start, end] with 0 <= start, start + minlen(pattern) <= end <= len(s) (minlen computed from the compiled pattern's syntax tree)"] = true
		}
	case "bytes.Index":
		// r == -1, or sep occurs at r: it fits, and (for a non-empty sep) s[r] is its first byte
		if len(args) == 2 && len(args[0].C) >= 2 && len(args[1].C) >= 2 {
			q.assume("true", fmt.Sprintf("(and (<= (- 1) %s) (=> (>= %s 0) (<= (+ %s %s) %s)))", v.C[0], v.C[0], v.C[0], args[1].C[1], args[0].C[1]))
			if !q.optsNoContents() {
				lf := layoutOf(types.Typ[types.Uint8]).leaves[0]
				famLeafSort[lf.Arr] = lf.Sort
				arr := q.get(fr.cur.st, lf.Arr)
				q.assume("true", fmt.Sprintf("(=> (and (>= %s 0) (> %s 0)) (= (select %s (+ %s %s)) (select %s %s)))", v.C[0], args[1].C[1], arr, args[0].C[0], v.C[0], arr, args[1].C[0]))
			}
			trustedUsed["bytes.Index(s, sep) = r: r == -1, or r >= 0 with r+len(sep) <= len(s) and s[r] == sep[0]"] = true
		}
	case "sort.Search":
		// the smallest index in [0, n) at which the predicate holds, or n
		q.assume("true", fmt.Sprintf("(and (<= 0 %s) (<= %s (ite (>= %s 0) %s 0)))", v.C[0], v.C[0], args[0].C[0], args[0].C[0]))
		trustedUsed["sort.Search(n, f) returns a value in [0, n]"] = true
	case "strings.Index", "strings.IndexByte", "strings.IndexRune", "strings.LastIndex", "strings.IndexAny":
		q.assume("true", fmt.Sprintf("(and (<= (- 1) %s) (< %s (slen %s)) (=> (= (slen %s) 0) (<= %s 0)))", v.C[0], v.C[0], args[0].C[0], args[0].C[0], v.C[0]))
		if (full == "strings.Index" || full == "strings.LastIndex") && len(args) == 2 {
			// a found occurrence fits into the text
			q.assume("true", fmt.Sprintf("(=> (>= %s 0) (<= (+ %s (slen %s)) (slen %s)))", v.C[0], v.C[0], args[1].C[0], args[0].C[0]))
		}
	}
}

func (fr *Frame) invokeIntrinsic(ins ssa.Instruction, c *ssa.CallCommon, recv Val, args []Val, rt types.Type) (Val, bool) {
	key := typeKey(c.Value.Type()) + "." + c.Method.Name()
	if strings.HasPrefix(key, "io/fs.FileInfo.") || strings.HasPrefix(key, "os.FileInfo.") || strings.HasPrefix(key, "os.DirEntry.") || strings.HasPrefix(key, "io/fs.DirEntry.") {
		trustedUsed["io/fs.FileInfo / DirEntry accessors: no effect on the modelled heap, result unconstrained"] = true
		return fr.freshVal(fr.prefix+"_inv_"+c.Method.Name(), rt, fr.cur.reach, fr.cur.st), true
	}
	switch key {
	case "error.Error", "fmt.Stringer.String", "context.Context.Err", "context.Context.Done", "context.Context.Deadline", "context.Context.Value":
		trustedUsed["error.Error, Stringer.String, context.Context methods: no effect on the modelled heap, result unconstrained"] = true
		v := fr.freshVal(fr.prefix+"_inv_"+c.Method.Name(), rt, fr.cur.reach, fr.cur.st)
		return v, true
	}
	return Val{}, false
}

// ---------- scalar replacement of non-escaping locals ----------
// A local whose address never leaves the function (and its directly called/deferred closures) is not part of the
// shared heap: its leaves are scalar state variables "$L|<frame>|<name>#k". No call or loop havoc can touch them, and
// stores to them do not disturb the heap families of the same type.

type localRef struct {
	key  string
	leaf int // index of the first leaf addressed
	typ  types.Type
}

func leafStart(t types.Type, field int) int {
	st := underlying(t).(*types.Struct)
	n := 0
	for i := 0; i < field; i++ {
		n += len(layoutOf(st.Field(i).Type()).leaves)
	}
	return n
}

func (fr *Frame) resolveLocal(v ssa.Value) (localRef, bool) {
	switch x := v.(type) {
	case *ssa.Alloc:
		for f := fr; f != nil; f = f.parent {
			if k, ok := f.localKey[x]; ok {
				return localRef{key: k, leaf: 0, typ: x.Type().(*types.Pointer).Elem()}, true
			}
		}
	case *ssa.FreeVar:
		if r, ok := fr.freeLocal[x]; ok {
			return r, true
		}
	case *ssa.FieldAddr:
		if r, ok := fr.resolveLocal(x.X); ok {
			pt := x.X.Type().(*types.Pointer).Elem()
			st := underlying(pt).(*types.Struct)
			return localRef{key: r.key, leaf: r.leaf + leafStart(pt, x.Field), typ: st.Field(x.Field).Type()}, true
		}
	}
	return localRef{}, false
}

func (fr *Frame) localLeafKeys(r localRef, elem types.Type) ([]string, []string) {
	l := layoutOf(elem)
	keys := make([]string, len(l.leaves))
	sorts := make([]string, len(l.leaves))
	for i, lf := range l.leaves {
		keys[i] = fmt.Sprintf("%s#%d", r.key, r.leaf+i)
		sorts[i] = lf.Sort
		ghostSorts[keys[i]] = lf.Sort
	}
	return keys, sorts
}

func (fr *Frame) loadLocal(st *State, r localRef, elem types.Type) Val {
	keys, sorts := fr.localLeafKeys(r, elem)
	v := Val{C: make([]string, len(keys))}
	for i, k := range keys {
		t, ok := st.v[k]
		if !ok {
			t = fr.q.fresh(fr.prefix+"_luninit", sorts[i])
			st.v[k] = t
		}
		v.C[i] = t
	}
	return v
}

// placeOfScalarPtr resolves an address-valued SSA value that points to a scalar struct field.
func (fr *Frame) placeLeaves(addr ssa.Value, elem types.Type) (fams []string, addrs []string, sorts []string) {
	p := fr.val(addr).C[0]
	if fa, ok := addr.(*ssa.FieldAddr); ok {
		pt := fa.X.Type().(*types.Pointer).Elem()
		stt := underlying(pt).(*types.Struct)
		ft := stt.Field(fa.Field).Type()
		switch underlying(ft).(type) {
		case *types.Struct, *types.Array:
		default:
			base := fr.val(fa.X).C[0]
			fname := stt.Field(fa.Field).Name()
			for _, lf := range layoutOf(pt).leaves {
				if lf.Path == fname || strings.HasPrefix(lf.Path, fname+"#") {
					fams = append(fams, lf.Arr)
					addrs = append(addrs, sAdd(base, sInt(int64(lf.Off))))
					sorts = append(sorts, lf.Sort)
				}
			}
			return
		}
	}
	for _, lf := range layoutOf(elem).leaves {
		fams = append(fams, lf.Arr)
		addrs = append(addrs, sAdd(p, sInt(int64(lf.Off))))
		sorts = append(sorts, lf.Sort)
	}
	return
}

func (fr *Frame) loadVia(addr ssa.Value, elem types.Type) Val {
	if fr.q.rtLeaves != nil && !throughSliceElement(addr) {
		if _, local := fr.resolveLocal(addr); !local {
			fams, addrs, _ := fr.placeLeaves(addr, elem)
			for i := range fams {
				fr.readCheck(fams[i], addrs[i], addr.Pos(), "")
			}
		}
	}
	return fr.loadViaIn(fr.cur.st, addr, elem)
}

// readCheck: a leaf of the tracked receiver is read: it must have been assigned by this call (or be on the allow list)
func (fr *Frame) readCheck(fam, addr string, pos token.Pos, by string) {
	q := fr.q
	lf, ok := q.rtLeaves[fam]
	if !ok {
		return
	}
	if _, allowed := q.opts.TrackReads[lf.Path]; allowed {
		return
	}
	flag := q.get(fr.cur.st, "$w|"+lf.Path)
	cond := fmt.Sprintf("(=> (= %s %s) %s)", addr, sAdd(q.rtBase, sInt(int64(lf.Off))), flag)
	name := "read-before-assign(" + lf.Path + ")"
	if by != "" {
		name += " by " + by
	}
	q.addObligation(fr, "reads", name, pos, fr.cur.reach, cond)
}

func (fr *Frame) loadViaIn(st *State, addr ssa.Value, elem types.Type) Val {
	if r, ok := fr.resolveLocal(addr); ok {
		return fr.loadLocal(st, r, elem)
	}
	fams, addrs, sorts := fr.placeLeaves(addr, elem)
	v := Val{C: make([]string, len(fams))}
	for i := range fams {
		famLeafSort[fams[i]] = sorts[i]
		v.C[i] = fmt.Sprintf("(select %s %s)", fr.q.get(st, fams[i]), addrs[i])
	}
	return v
}

func (fr *Frame) loadViaOld(addr ssa.Value, elem types.Type) Val {
	fams, addrs, sorts := fr.placeLeaves(addr, elem)
	v := Val{C: make([]string, len(fams))}
	for i := range fams {
		famLeafSort[fams[i]] = sorts[i]
		v.C[i] = fmt.Sprintf("(select %s %s)", fr.q.get(fr.cur.st, fams[i]), addrs[i])
	}
	return v
}

func (fr *Frame) storeVia(addr ssa.Value, elem types.Type, v Val) {
	if r, ok := fr.resolveLocal(addr); ok {
		keys, _ := fr.localLeafKeys(r, elem)
		for i, k := range keys {
			if i < len(v.C) {
				fr.cur.st.v[k] = v.C[i]
			}
		}
		return
	}
	fams, addrs, sorts := fr.placeLeaves(addr, elem)
	st := fr.cur.st
	for i := range fams {
		famLeafSort[fams[i]] = sorts[i]
		a := fr.q.get(st, fams[i])
		if lf, ok := fr.q.rtLeaves[fams[i]]; ok {
			k := "$w|" + lf.Path
			st.v[k] = fmt.Sprintf("(or %s (= %s %s))", fr.q.get(st, k), addrs[i], sAdd(fr.q.rtBase, sInt(int64(lf.Off))))
		}
		if fams[i] == fr.q.peakFam && fr.q.peakFam != "" {
			// the cursor moves: remember the furthest point it reached
			hw := fr.q.get(st, "$hw")
			st.v["$hw"] = fmt.Sprintf("(ite (and (= %s %s) (> %s %s)) %s %s)", addrs[i], fr.q.peakAddr, v.C[i], hw, v.C[i], hw)
		}
		t := fmt.Sprintf("(store %s %s %s)", a, addrs[i], v.C[i])
		if len(t) > 400 {
			n := fr.q.fresh(smtSym(fams[i])+"@s", famSort(fr.q, fams[i]))
			fr.q.assume("true", sEq(n, t))
			t = n
		}
		st.v[fams[i]] = t
	}
}

func (fr *Frame) atomicIntrinsic(ins ssa.Instruction, callee *ssa.Function, c *ssa.CallCommon, args []Val, rt types.Type) (Val, bool) {
	name := callee.Name()
	if len(c.Args) == 0 {
		return Val{}, false
	}
	pt, ok := underlying(c.Args[0].Type()).(*types.Pointer)
	if !ok {
		return Val{}, false
	}
	trustedUsed["sync/atomic Load/Store/Add/CompareAndSwap act as sequential reads/writes of the cell (interference from other goroutines is handled by the rely/guarantee obligations of C10 only)"] = true
	cur := fr.loadVia(c.Args[0], pt.Elem())
	fams, addrs, _ := fr.placeLeaves(c.Args[0], pt.Elem())
	var rg *RGSpec
	key := ""
	if len(fams) == 1 && fr.q.eng.RG != nil {
		rg = fr.q.eng.RG[fams[0]]
		key = fams[0] + "@" + addrs[0]
	}
	// rgCheck: the update old -> new must satisfy the guarantee for every value `now` the cell may hold at this
	// instant, i.e. every value rely-reachable from what this thread last observed (exact: the observed value itself).
	rgCheck := func(newv string, exact string) {
		if rg == nil || !fr.q.opts.RG {
			return
		}
		q := fr.q
		now := exact
		if now == "" {
			now = q.fresh(fr.prefix+"_now", "Int")
			if seen, ok := fr.root().lastAtomicLoad[key]; ok {
				env := newSpecEnv(fr, fr.fn)
				env.st, env.old = fr.cur.st, fr.cur.st
				env.names["old"] = intSV(seen)
				env.names["new"] = intSV(now)
				if t, err := env.evalBool(rg.Rely.Expr); err == nil {
					q.assume(fr.cur.reach, sOr(sEq(now, seen), t))
				}
			}
		}
		env := newSpecEnv(fr, fr.fn)
		env.st, env.old = fr.cur.st, fr.cur.st
		env.names["old"] = intSV(now)
		env.names["new"] = intSV(newv)
		t, err := env.evalBool(rg.Guarantee.Expr)
		if err != nil {
			q.note("rg " + rg.Name + ": " + err.Error())
			return
		}
		k := fr.callOrdinal("rg:" + rg.Name)
		q.addObligation(fr, "rg", fmt.Sprintf("%s#%d:%s", rg.Name, k, rg.Guarantee.Text), ins.Pos(), fr.cur.reach, t)
	}
	switch {
	case strings.HasPrefix(name, "Load"):
		if key != "" {
			v := fr.q.fresh(fr.prefix+"_aload", "Int")
			fr.q.assume("true", sEq(v, cur.C[0]))
			fr.root().lastAtomicLoad[key] = v
			return Val{C: []string{v}}, true
		}
		return cur, true
	case strings.HasPrefix(name, "Store"):
		rgCheck(args[1].C[0], "")
		fr.storeVia(c.Args[0], pt.Elem(), args[1])
		return Val{}, true
	case strings.HasPrefix(name, "Add"):
		nv := Val{C: []string{"(+ " + cur.C[0] + " " + args[1].C[0] + ")"}}
		rgCheck(nv.C[0], cur.C[0])
		fr.storeVia(c.Args[0], pt.Elem(), nv)
		return nv, true
	case strings.HasPrefix(name, "Swap"):
		rgCheck(args[1].C[0], "")
		fr.storeVia(c.Args[0], pt.Elem(), args[1])
		return cur, true
	case strings.HasPrefix(name, "CompareAndSwap"):
		// interference: the cell holds an arbitrary rely-reachable value `now`; the swap happens iff now == expected
		q := fr.q
		now := cur.C[0]
		if rg != nil && q.opts.RG {
			now = q.fresh(fr.prefix+"_casnow", "Int")
		}
		ok := q.fresh(fr.prefix+"_cas", "Bool")
		q.assume("true", sEq(ok, sEq(now, args[1].C[0])))
		if rg != nil && q.opts.RG {
			// on success the old value is exactly the expected one
			save := fr.cur.reach
			sr := q.fresh(fr.prefix+"_casok", "Bool")
			q.assume("true", sEq(sr, sAnd(save, ok)))
			fr.cur.reach = sr
			rgCheck(args[2].C[0], args[1].C[0])
			fr.cur.reach = save
		}
		nv := Val{C: []string{sIte(ok, args[2].C[0], now)}}
		fr.storeVia(c.Args[0], pt.Elem(), nv)
		return Val{C: []string{ok}}, true
	}
	return Val{}, false
}

var stdTypeCache = map[string]types.Type{}

// findStdType: strings.Builder / bytes.Buffer named types from the loaded program
func findStdType(fn *ssa.Function, pkg string) types.Type {
	if t, ok := stdTypeCache[pkg]; ok {
		return t
	}
	var res types.Type
	for _, p := range fn.Prog.AllPackages() {
		if p.Pkg.Path() == pkg {
			name := "Builder"
			if pkg == "bytes" {
				name = "Buffer"
			}
			if o := p.Pkg.Scope().Lookup(name); o != nil {
				res = o.Type()
			}
		}
	}
	stdTypeCache[pkg] = res
	return res
}

// sprintfBound: an upper bound of the length of fmt.Sprintf(format, operands...) when the format is a constant and
// every operand is a string, an integer, a rune or a boolean packed in place (the usual error-message case).
func (fr *Frame) sprintfBound(args []Val) (string, bool) {
	ca := fr.lastCallArgs
	if len(ca) != 2 {
		return "", false
	}
	fc, ok := ca[0].(*ssa.Const)
	if !ok {
		return "", false
	}
	format := constString(fc)
	if format == "%T" {
		return "64", true // a type name
	}
	if strings.Contains(format, "*") || strings.Contains(format, "%+v") || strings.Contains(format, "%#v") {
		return "", false
	}
	terms := []string{sInt(int64(len(format)))}
	// operands: a slice of a local [n]interface{} array filled by stores of MakeInterface values
	sl, ok := ca[1].(*ssa.Slice)
	if !ok {
		if c, isC := ca[1].(*ssa.Const); isC && c.Value == nil {
			return terms[0], true // no operands
		}
		return "", false
	}
	arr, ok := sl.X.(*ssa.Alloc)
	if !ok || arr.Referrers() == nil {
		return "", false
	}
	for _, r := range *arr.Referrers() {
		ia, ok := r.(*ssa.IndexAddr)
		if !ok {
			continue
		}
		for _, rr := range *ia.Referrers() {
			st, ok := rr.(*ssa.Store)
			if !ok {
				continue
			}
			mi, ok := st.Val.(*ssa.MakeInterface)
			if !ok {
				return "", false
			}
			switch u := underlying(mi.X.Type()).(type) {
			case *types.Basic:
				switch {
				case u.Info()&types.IsString != 0:
					xv := fr.val(mi.X)
					f := "1"
					if strings.Contains(format, "%q") || strings.Contains(format, "%x") || strings.Contains(format, "%X") || strings.Contains(format, "%U") {
						f = "10" // quoting / hex rendering may expand every byte
					}
					terms = append(terms, "(* "+f+" (slen "+xv.C[0]+"))", "40")
				case u.Info()&(types.IsInteger|types.IsBoolean) != 0:
					terms = append(terms, "40")
				default:
					return "", false
				}
			default:
				return "", false
			}
		}
	}
	return "(+ " + strings.Join(terms, " ") + ")", true
}

// regexpMinLen: the length in bytes of the shortest string the pattern of a package-level *regexp.Regexp can match
// (0 when the pattern cannot be determined)
func regexpMinLen(recv ssa.Value) int {
	u, ok := recv.(*ssa.UnOp)
	if !ok {
		return 0
	}
	g, ok := u.X.(*ssa.Global)
	if !ok || g.Pkg == nil {
		return 0
	}
	init := g.Pkg.Func("init")
	if init == nil {
		return 0
	}
	for _, b := range init.Blocks {
		for _, ins := range b.Instrs {
			st, ok := ins.(*ssa.Store)
			if !ok || st.Addr != ssa.Value(g) {
				continue
			}
			call, ok := st.Val.(*ssa.Call)
			if !ok || call.Call.StaticCallee() == nil || call.Call.StaticCallee().String() != "regexp.MustCompile" {
				return 0
			}
			c, ok := call.Call.Args[0].(*ssa.Const)
			if !ok {
				return 0
			}
			re, err := syntax.Parse(constString(c), syntax.Perl)
			if err != nil {
				return 0
			}
			return reMin(re.Simplify())
		}
	}
	return 0
}

func reMin(re *syntax.Regexp) int {
	switch re.Op {
	case syntax.OpLiteral:
		return len(re.Rune) // each rune is at least one byte
	case syntax.OpCharClass, syntax.OpAnyCharNotNL, syntax.OpAnyChar:
		return 1
	case syntax.OpCapture:
		return reMin(re.Sub[0])
	case syntax.OpPlus:
		return reMin(re.Sub[0])
	case syntax.OpRepeat:
		return re.Min * reMin(re.Sub[0])
	case syntax.OpConcat:
		n := 0
		for _, s := range re.Sub {
			n += reMin(s)
		}
		return n
	case syntax.OpAlternate:
		m := -1
		for _, s := range re.Sub {
			if k := reMin(s); m < 0 || k < m {
				m = k
			}
		}
		if m < 0 {
			return 0
		}
		return m
	}
	return 0 // star, quest, empty, anchors, anything unknown
}

func (fr *Frame) builderOp(name string, c *ssa.CallCommon, args []Val, rt types.Type) (Val, bool) {
	q := fr.q
	st := fr.cur.st
	pt, ok := underlying(c.Args[0].Type()).(*types.Pointer)
	if !ok {
		return Val{}, false
	}
	var lenLeaf *Leaf
	l := layoutOf(pt.Elem())
	for i := range l.leaves {
		if l.leaves[i].Path == "buf#len" {
			lenLeaf = &l.leaves[i]
		}
	}
	if lenLeaf == nil {
		return Val{}, false
	}
	famLeafSort[lenLeaf.Arr] = lenLeaf.Sort
	var addr string
	var cur string
	var local *localRef
	if r, ok := fr.resolveLocal(c.Args[0]); ok {
		local = &r
		keys, _ := fr.localLeafKeys(r, pt.Elem())
		for i := range l.leaves {
			if l.leaves[i].Path == "buf#len" && i < len(keys) {
				addr = keys[i]
				cur = q.get(st, keys[i])
			}
		}
		if addr == "" {
			return Val{}, false
		}
	} else {
		addr = sAdd(args[0].C[0], sInt(int64(lenLeaf.Off)))
		cur = fmt.Sprintf("(select %s %s)", q.get(st, lenLeaf.Arr), addr)
	}
	set := func(nv string) {
		if local != nil {
			st.v[addr] = nv
			return
		}
		st.v[lenLeaf.Arr] = fmt.Sprintf("(store %s %s %s)", q.get(st, lenLeaf.Arr), addr, nv)
	}
	q.assume(fr.cur.reach, "(>= "+cur+" 0)")
	switch name {
	case "WriteString":
		n := "(slen " + args[1].C[0] + ")"
		set("(+ " + cur + " " + n + ")")
		return Val{C: []string{n, "0", "0"}}, true
	case "Write":
		n := args[1].C[1]
		set("(+ " + cur + " " + n + ")")
		return Val{C: []string{n, "0", "0"}}, true
	case "WriteByte":
		set("(+ " + cur + " 1)")
		return Val{C: []string{"0", "0"}}, true
	case "WriteRune":
		k := q.fresh(fr.prefix+"_runelen", "Int")
		q.assume("true", fmt.Sprintf("(and (<= 1 %s) (<= %s 4))", k, k))
		set("(+ " + cur + " " + k + ")")
		return Val{C: []string{k, "0", "0"}}, true
	case "String":
		r := q.fresh(fr.prefix+"_built", "Str")
		q.assume(fr.cur.reach, fmt.Sprintf("(= (slen %s) %s)", r, cur))
		return Val{C: []string{r}}, true
	case "Len":
		return Val{C: []string{cur}}, true
	case "Reset":
		set("0")
		return Val{}, true
	case "Grow":
		return Val{}, true
	}
	return Val{}, false
}

// throughSliceElement: the address is (a field of) an element of a slice; such cells are never fields of the tracked
// receiver object, whose type has no array fields (no safe Go expression slices a struct's scalar fields)
func throughSliceElement(a ssa.Value) bool {
	for i := 0; i < 8; i++ {
		switch x := a.(type) {
		case *ssa.IndexAddr:
			if _, ok := underlying(x.X.Type()).(*types.Slice); ok {
				return true
			}
			a = x.X
		case *ssa.FieldAddr:
			a = x.X
		default:
			return false
		}
	}
	return false
}
