package main

import (
	"fmt"
	"golang.org/x/tools/go/packages"
	"golang.org/x/tools/go/ssa"
	"golang.org/x/tools/go/ssa/ssautil"
)

func main() {
	cfg := &packages.Config{Mode: packages.LoadAllSyntax, Dir: "/repo", BuildFlags: []string{"-tags=verif"}}
	pkgs, err := packages.Load(cfg, "./pkg/...", "./cmd/...")
	if err != nil {
		panic(err)
	}
	prog, spkgs := ssautil.AllPackages(pkgs, ssa.GlobalDebug|ssa.InstantiateGenerics)
	prog.Build()
	fmt.Println(len(pkgs), len(spkgs))
}
