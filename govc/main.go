package main

import (
	"encoding/json"
	"flag"
	"fmt"
	"os"
	"strings"

	"golang.org/x/tools/go/ssa"
)

func main() {
	if len(os.Args) < 2 {
		fmt.Fprintln(os.Stderr, "usage: govc <check|verify|dump|replay> ...")
		os.Exit(2)
	}
	defer cleanupScratch()
	switch os.Args[1] {
	case "verify":
		cmdVerify(os.Args[2:])
	case "allsources":
		cmdAllSources(os.Args[2:])
	case "modset":
		cmdModset(os.Args[2:])
	case "check":
		os.Exit(cmdCheck(os.Args[2:]))
	case "replay":
		os.Exit(cmdReplay(os.Args[2:]))
	default:
		fmt.Fprintln(os.Stderr, "unknown command", os.Args[1])
		os.Exit(2)
	}
}

// govc verify [-repo dir] [-smt] fnkey...   (debug: verify single functions with safety sweep)
func cmdVerify(args []string) {
	fs := flag.NewFlagSet("verify", flag.ExitOnError)
	repo := fs.String("repo", "/repo", "repository")
	dumpSMT := fs.Bool("smt", false, "print background")
	inline := fs.Int("inline", 2, "inline depth")
	showAll := fs.Bool("all", false, "show discharged too")
	cost := fs.Bool("cost", false, "cost mode (C20 clauses only)")
	tag := fs.String("tag", "", "check only the clauses carrying this tag")
	fs.Parse(args)
	e, err := loadEngine(*repo)
	if err != nil {
		fmt.Fprintln(os.Stderr, err)
		os.Exit(2)
	}
	e.computeModSets()
	e.fixPureModsets()
	opts := &VCOpts{Safety: true, InlineDepth: *inline}
	if *cost {
		opts = &VCOpts{InlineDepth: 1, Cost: true, CheckTags: map[string]bool{"C20": true}}
	}
	if *tag != "" {
		opts = &VCOpts{InlineDepth: 1, CheckTags: map[string]bool{*tag: true}}
	}
	var rs []*FnResult
	for _, k := range fs.Args() {
		var fns []*ssa.Function
		if strings.HasSuffix(k, "*") {
			for _, f := range e.allFns {
				if strings.HasPrefix(fnKey(f), strings.TrimSuffix(k, "*")) && f.Blocks != nil && f.Synthetic == "" {
					fns = append(fns, f)
				}
			}
		} else if f := e.Fn(k); f != nil {
			fns = append(fns, f)
		} else {
			fmt.Fprintln(os.Stderr, "no such function", k)
			continue
		}
		for _, r := range e.verifyAll(fns, opts, nil) {
			rs = append(rs, r)
			if *dumpSMT {
				fmt.Println(r.Background)
			}
		}
	}
	tier := quickTier(0)
	discharge(rs, tier)
	for _, r := range rs {
		coverCheck(r, tier)
		n, d := 0, 0
		for _, o := range r.Obls {
			n++
			if o.Answer == "unsat" {
				d++
			}
		}
		fmt.Printf("== %s: %d obligations, %d discharged, cover=%s, smt=%dB, solver=%.1fs\n", r.Fn, n, d, r.CoverAnswer, len(r.Background), r.SolverSecs)
		for _, o := range r.Obls {
			if d := os.Getenv("GOVC_DUMP_OB"); d != "" && o.Answer != "unsat" && strings.Contains(o.Name, d) {
				os.WriteFile("/tmp/ob_"+sanitize(o.Kind)+".smt2", []byte(obQuery(r, o)), 0o644)
			}
			if o.Answer != "unsat" || *showAll {
				fmt.Printf("   %-8s %-7s %s  [%s] %s\n", o.Kind, o.Answer, o.Name, o.Pos, o.Solver)
				if o.Model != "" && *dumpSMT {
					fmt.Println(o.Model)
				}
			}
		}
		for _, n := range r.Notes {
			fmt.Println("   note:", n)
		}
		for _, n := range r.Unsupported {
			fmt.Println("   UNSUPPORTED:", n)
		}
	}
}

func init() {
	debugDumpOb = os.Getenv("GOVC_DUMP_OB")
}

func cmdModset(args []string) {
	e, err := loadEngine("/repo")
	if err != nil {
		fmt.Fprintln(os.Stderr, err)
		os.Exit(2)
	}
	e.computeModSets()
	e.fixPureModsets()
	why := ""
	if len(args) > 1 && strings.HasPrefix(args[0], "why=") {
		why = strings.TrimPrefix(args[0], "why=")
		args = args[1:]
	}
	for _, k := range args {
		fn := e.Fn(k)
		if fn == nil {
			fmt.Println("no such function", k)
			continue
		}
		if why != "" {
			seen := map[*ssa.Function]bool{}
			var walk func(f *ssa.Function, d int)
			walk = func(f *ssa.Function, d int) {
				if seen[f] || d > 10 {
					return
				}
				seen[f] = true
				if m := e.modsets[f]; m == nil || !(m.Arrs[why] || m.All) {
					return
				}
				fmt.Printf("%*s%s\n", d*2, "", f.String())
				for _, b := range f.Blocks {
					for _, ins := range b.Instrs {
						if ci, ok := ins.(ssa.CallInstruction); ok {
							if c := ci.Common().StaticCallee(); c != nil {
								walk(c, d+1)
							}
						}
					}
				}
			}
			walk(fn, 0)
			continue
		}
		ms := e.modsets[fn]
		fmt.Printf("%s: all=%v alloc=%v arrs=%d %v\n", k, ms.All, ms.Alloc, len(ms.Arrs), sortedKeys(ms.Arrs))
		if ms.All {
			// explain: find a path to an All source
			seen := map[*ssa.Function]bool{}
			var walk func(f *ssa.Function, depth int) bool
			walk = func(f *ssa.Function, depth int) bool {
				if seen[f] || depth > 12 {
					return false
				}
				seen[f] = true
				if f.Blocks == nil {
					if e.modsets[f] != nil && e.modsets[f].All {
						fmt.Printf("%*s%s  (no body)\n", depth*2, "", f.String())
						return true
					}
					return false
				}
				for _, b := range f.Blocks {
					for _, ins := range b.Instrs {
						switch x := ins.(type) {
						case *ssa.Go, *ssa.Select, *ssa.Send:
							fmt.Printf("%*s%s: %T\n", depth*2, "", f.String(), ins)
							return true
						case ssa.CallInstruction:
							c := x.Common()
							if c.IsInvoke() {
								if intrinsicInvokeMod(c) == nil {
									fmt.Printf("%*s%s: invoke %s.%s\n", depth*2, "", f.String(), c.Value.Type(), c.Method.Name())
									return true
								}
								continue
							}
							switch cv := c.Value.(type) {
							case *ssa.Function:
								if m := e.modsets[cv]; m != nil && m.All {
									fmt.Printf("%*s%s -> %s\n", depth*2, "", f.String(), cv.String())
									if walk(cv, depth+1) {
										return true
									}
								}
							case *ssa.Builtin, *ssa.MakeClosure:
							default:
								fmt.Printf("%*s%s: dynamic call\n", depth*2, "", f.String())
								return true
							}
						}
					}
				}
				return false
			}
			walk(fn, 1)
		}
	}
}

func cmdAllSources(args []string) {
	e, err := loadEngine("/repo")
	if err != nil {
		os.Exit(2)
	}
	e.computeModSets()
	for _, f := range e.allFns {
		if !e.inRepo(f) || f.Blocks == nil {
			continue
		}
		if len(args) > 0 && !strings.HasPrefix(fnKey(f), args[0]) {
			continue
		}
		for _, b := range f.Blocks {
			for _, ins := range b.Instrs {
				switch x := ins.(type) {
				case *ssa.Go, *ssa.Select, *ssa.Send:
					fmt.Printf("%s: %T\n", fnKey(f), ins)
				case ssa.CallInstruction:
					c := x.Common()
					if c.IsInvoke() {
						if intrinsicInvokeMod(c) == nil {
							if _, ok := e.invokeTargets(c); !ok {
								fmt.Printf("%s: invoke %s.%s\n", fnKey(f), c.Value.Type(), c.Method.Name())
							}
						}
						continue
					}
					switch cv := c.Value.(type) {
					case *ssa.Function:
						if cv.Blocks == nil && intrinsicFuncMod(cv) == nil {
							fmt.Printf("%s: bodyless %s\n", fnKey(f), cv.String())
						} else if !e.inRepo(cv) && e.modsets[cv].All {
							fmt.Printf("%s: std-all %s\n", fnKey(f), cv.String())
						}
					case *ssa.Builtin, *ssa.MakeClosure:
					default:
						fmt.Printf("%s: dynamic call\n", fnKey(f))
					}
				}
			}
		}
	}
}

// govc replay [-repo dir] <file>: re-runs the executable witness stored in a replay file against the real code.
// exit 1: the witness fails as recorded (panic at the obligation's instruction / failing assertion), or the file records
// a failed obligation without an input (no-failing-input-found: the obligation and the solver output are printed);
// exit 0: a stored witness no longer fails.
func cmdReplay(args []string) int {
	fs := flag.NewFlagSet("replay", flag.ExitOnError)
	repo := fs.String("repo", "/repo", "repository")
	fs.Parse(args)
	if fs.NArg() != 1 {
		fmt.Fprintln(os.Stderr, "usage: govc replay [-repo dir] <replay.json>")
		return 2
	}
	b, err := os.ReadFile(fs.Arg(0))
	if err != nil {
		fmt.Fprintln(os.Stderr, err)
		return 2
	}
	var rec map[string]any
	if err := json.Unmarshal(b, &rec); err != nil {
		fmt.Fprintln(os.Stderr, err)
		return 2
	}
	str := func(k string) string { s, _ := rec[k].(string); return s }
	fmt.Printf("property   %s\nobligation %s\nat         %s\nsolver     %s [%s]\n", str("property"), str("obligation"), str("pos"), str("solver"), str("solver_answer"))
	if d := str("desc"); d != "" {
		fmt.Printf("meaning    %s\n", d)
	}
	src := str("go_test")
	if src == "" {
		fmt.Println("no executable witness is stored for this obligation (no-failing-input-found): the failed obligation above, with the")
		fmt.Println("solver's answer, is the report. Candidate model (if any):")
		m := str("model")
		if len(m) > 1500 {
			m = m[:1500] + " ..."
		}
		fmt.Println(m)
		return 1
	}
	name := str("go_test_name")
	if name == "" {
		name = "TestGovcReplay"
		if i := strings.Index(src, "func Test"); i >= 0 {
			j := strings.Index(src[i:], "(")
			name = src[i+5 : i+j]
		}
	}
	e := &Engine{RepoDir: *repo}
	out, failed := runReplay(e, &ReplaySpec{PkgDir: str("go_test_pkg"), TestName: name, Source: src, MustContain: str("must_contain")})
	fmt.Println(out)
	if failed {
		fmt.Println("REPRODUCED: the witness fails against the code in", *repo)
		return 1
	}
	fmt.Println("not reproduced: the witness passes against the code in", *repo)
	return 0
}
