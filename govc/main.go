package main

import (
	"flag"
	"fmt"
	"os"
	"strings"

	"golang.org/x/tools/go/ssa"
)

func main() {
	if len(os.Args) < 2 {
		fmt.Fprintln(os.Stderr, "usage: govc <check|verify|dump|replay> ...")
		os.Exit(2)
	}
	defer cleanupScratch()
	switch os.Args[1] {
	case "verify":
		cmdVerify(os.Args[2:])
	case "check":
		os.Exit(cmdCheck(os.Args[2:]))
	default:
		fmt.Fprintln(os.Stderr, "unknown command", os.Args[1])
		os.Exit(2)
	}
}

// govc verify [-repo dir] [-smt] fnkey...   (debug: verify single functions with safety sweep)
func cmdVerify(args []string) {
	fs := flag.NewFlagSet("verify", flag.ExitOnError)
	repo := fs.String("repo", "/repo", "repository")
	dumpSMT := fs.Bool("smt", false, "print background")
	inline := fs.Int("inline", 2, "inline depth")
	showAll := fs.Bool("all", false, "show discharged too")
	fs.Parse(args)
	e, err := loadEngine(*repo)
	if err != nil {
		fmt.Fprintln(os.Stderr, err)
		os.Exit(2)
	}
	e.computeModSets()
	e.fixPureModsets()
	opts := &VCOpts{Safety: true, InlineDepth: *inline}
	var rs []*FnResult
	for _, k := range fs.Args() {
		var fns []*ssa.Function
		if strings.HasSuffix(k, "*") {
			for _, f := range e.allFns {
				if strings.HasPrefix(fnKey(f), strings.TrimSuffix(k, "*")) && f.Blocks != nil && f.Synthetic == "" {
					fns = append(fns, f)
				}
			}
		} else if f := e.Fn(k); f != nil {
			fns = append(fns, f)
		} else {
			fmt.Fprintln(os.Stderr, "no such function", k)
			continue
		}
		for _, fn := range fns {
			r := e.verifyFn(fn, opts, nil)
			rs = append(rs, r)
			if *dumpSMT {
				fmt.Println(r.Background)
			}
		}
	}
	tier := quickTier(0)
	discharge(rs, tier)
	for _, r := range rs {
		coverCheck(r, tier)
		n, d := 0, 0
		for _, o := range r.Obls {
			n++
			if o.Answer == "unsat" {
				d++
			}
		}
		fmt.Printf("== %s: %d obligations, %d discharged, cover=%s, smt=%dB, solver=%.1fs\n", r.Fn, n, d, r.CoverAnswer, len(r.Background), r.SolverSecs)
		for _, o := range r.Obls {
			if o.Answer != "unsat" || *showAll {
				fmt.Printf("   %-8s %-7s %s  [%s] %s\n", o.Kind, o.Answer, o.Name, o.Pos, o.Solver)
				if o.Model != "" && *dumpSMT {
					fmt.Println(o.Model)
				}
			}
		}
		for _, n := range r.Notes {
			fmt.Println("   note:", n)
		}
		for _, n := range r.Unsupported {
			fmt.Println("   UNSUPPORTED:", n)
		}
	}
}

func init() {
	debugDumpOb = os.Getenv("GOVC_DUMP_OB")
}
