package main

import (
	"strings"

	"golang.org/x/tools/go/ssa"
)

func init() {
	register(&propDriver{ID: "C01", Title: "No input can crash, panic or hang any entry point", Run: runC01})
}

var c01Pkgs = []string{"pkg/sql/tokenizer/", "pkg/sql/parser/", "pkg/sql/ast/", "pkg/gosqlx/", "pkg/sql/security/", "pkg/linter/",
	"pkg/formatter/", "pkg/models/", "pkg/errors/", "pkg/sql/keywords/", "pkg/sql/token/", "pkg/metrics/", "pkg/security/"}

func runC01(e *Engine, tier Tier) *PropRun {
	opts := &VCOpts{Safety: true, InlineDepth: 1}
	fns := e.sourceFns(func(fn *ssa.Function, file string) bool {
		if fn.Parent() != nil {
			return false
		}
		if strings.HasSuffix(file, "/testing/testing.go") || strings.Contains(file, "/testing/") {
			return false
		}
		for _, p := range c01Pkgs {
			if strings.HasPrefix(file, p) {
				return true
			}
		}
		return false
	})
	e.prepareExempt("C01", fns, opts)
	rs := e.verifyAll(fns, opts, nil)
	safetyKinds := map[string]bool{"idx": true, "slice": true, "nil": true, "assert": true, "div": true, "makeslice": true, "panic": true, "pre": true, "dec": true}
	return &PropRun{
		Claim: func(o *Obligation) bool {
			if safetyKinds[o.Kind] {
				return true
			}
			// the tokenizer's cursor invariant, progress and loop-variant contracts are what makes its loops terminate
			// and its indexing safe: they are decided here (parser cursor/depth contracts are decided by C08)
			if strings.HasPrefix(o.Fn, "sql/tokenizer.") && (o.Kind == "post" || o.Kind == "inv-init" || o.Kind == "inv-pres") {
				return true
			}
			return false
		},
		Results: rs, FUC: fucList(rs),
		Explanation: "Zero-annotation panic-freedom sweep: for every function of the tokenizer, parser, AST, high-level API, scanner, linter, formatter, models, errors, keywords, token and metrics packages, one obligation per potentially panicking SSA instruction (index, slice bounds, nil dereference, type assertion, integer division, make with negative size, explicit panic), generated under the written contracts (data-structure invariants as preconditions, loop invariants) and discharged for all inputs. Only obligations in the committed baseline (discharged on the unchanged tree) are claimed; a claimed obligation that stops discharging is a violation and its counter-model is replayed against the real function. Termination (no hang): for the tokenizer, every scanning method proves the cursor invariant 0 <= pos <= len(input), monotonicity and progress (a successful read that started before the end consumed at least one byte), and the main loops of Tokenize/TokenizeContext prove the variant len(input) - pos; for the parser, the recursion-rank obligations of C02 and the cursor contracts of C08.",
		NotCovered:  []string{"stack exhaustion other than through the recursion measure of C02", "out-of-memory", "obligations undecided on the unchanged tree (listed, unclaimed)", "regexp engine inside ScanSQL", "termination of loops without a written variant"},
		Assumptions: []string{"methods are not called on nil receivers", "callee without contract that is not inlined: havoc of its computed write set, result constrained only by its Go type"},
	}
}
