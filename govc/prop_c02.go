package main

import (
	"fmt"
	"os"
	"sort"
	"strings"

	"golang.org/x/tools/go/ssa"
)

func init() {
	register(&propDriver{ID: "C02", Title: "Size, token and nesting limits hold for every construct", Run: runC02})
}

// static call graph restricted to a set of functions; SCCs by Tarjan
func sccs(nodes []*ssa.Function, succ map[*ssa.Function][]*ssa.Function) [][]*ssa.Function {
	index := map[*ssa.Function]int{}
	low := map[*ssa.Function]int{}
	on := map[*ssa.Function]bool{}
	var stack []*ssa.Function
	var out [][]*ssa.Function
	n := 0
	var strong func(v *ssa.Function)
	strong = func(v *ssa.Function) {
		index[v] = n
		low[v] = n
		n++
		stack = append(stack, v)
		on[v] = true
		for _, w := range succ[v] {
			if _, ok := index[w]; !ok {
				strong(w)
				if low[w] < low[v] {
					low[v] = low[w]
				}
			} else if on[w] && index[w] < low[v] {
				low[v] = index[w]
			}
		}
		if low[v] == index[v] {
			var comp []*ssa.Function
			for {
				w := stack[len(stack)-1]
				stack = stack[:len(stack)-1]
				on[w] = false
				comp = append(comp, w)
				if w == v {
					break
				}
			}
			out = append(out, comp)
		}
	}
	for _, v := range nodes {
		if _, ok := index[v]; !ok {
			strong(v)
		}
	}
	return out
}

type rankEdge struct {
	from, to *ssa.Function
	site     string
	guardOb  *Obligation // query: depth_entry+1 <= depth_site <= Max
}

func runC02(e *Engine, tier Tier) *PropRun {
	fns := e.sourceFns(func(fn *ssa.Function, file string) bool {
		return strings.HasPrefix(file, "pkg/sql/parser/") && fn.Parent() == nil
	})
	inSet := map[*ssa.Function]bool{}
	for _, f := range fns {
		inSet[f] = true
	}
	succ := map[*ssa.Function][]*ssa.Function{}
	for _, f := range fns {
		seen := map[*ssa.Function]bool{}
		for _, b := range f.Blocks {
			for _, ins := range b.Instrs {
				if c, ok := ins.(ssa.CallInstruction); ok {
					if g := c.Common().StaticCallee(); g != nil && inSet[g] && !seen[g] {
						seen[g] = true
						succ[f] = append(succ[f], g)
					}
				}
			}
		}
	}
	comps := sccs(fns, succ)
	sccOf := map[*ssa.Function]int{}
	var recFns []*ssa.Function
	for i, c := range comps {
		rec := len(c) > 1
		if len(c) == 1 {
			for _, g := range succ[c[0]] {
				if g == c[0] {
					rec = true
				}
			}
		}
		if rec {
			for _, f := range c {
				sccOf[f] = i + 1
				recFns = append(recFns, f)
			}
		}
	}
	sort.Slice(recFns, func(i, j int) bool { return fnKey(recFns[i]) < fnKey(recFns[j]) })
	maxDepth := "100"
	if sp := e.SPkgs[modPath+"/pkg/sql/parser"]; sp != nil {
		if c, ok := sp.Members["MaxRecursionDepth"].(*ssa.NamedConst); ok {
			maxDepth = c.Value.Value.ExactString()
		}
	}
	var edges []*rankEdge
	opts := &VCOpts{InlineDepth: 1, NoContents: true}
	depthOf := func(fr *Frame, st *State, p string) string {
		// Parser.depth of the object p in state st
		env := newSpecEnv(fr, fr.fn)
		env.st, env.old = st, st
		pt := fr.fn.Params[0].Type()
		env.names["p"] = SV{T: pt, V: Val{C: []string{p}}}
		c, _ := parseClause("p.depth")
		t, err := env.evalInt(c.Expr)
		if err != nil {
			return "0"
		}
		return t
	}
	opts.OnCall = func(fr *Frame, ins ssa.CallInstruction, callee *ssa.Function, args []Val) {
		root := fr.root()
		if callee == nil || sccOf[callee] == 0 || sccOf[callee] != sccOf[root.fn] || len(args) == 0 {
			return
		}
		if callee.Signature.Recv() == nil || root.fn.Signature.Recv() == nil {
			return
		}
		q := fr.q
		site := depthOf(root, fr.cur.st, args[0].C[0])
		entry := depthOf(root, root.entry, root.params[0].C[0])
		k := fr.callOrdinal("rank:" + fnKey(callee))
		// measure never increases: depth at the site is at least the depth at entry
		q.addObligation(fr, "rank", fmt.Sprintf("depth-nondecreasing@%s#%d", fnKey(callee), k), ins.Pos(), fr.cur.reach, fmt.Sprintf("(>= %s %s)", site, entry))
		g := q.addObligation(fr, "rankq", fmt.Sprintf("guarded@%s#%d", fnKey(callee), k), ins.Pos(), fr.cur.reach,
			fmt.Sprintf("(and (<= (+ %s 1) %s) (<= %s %s))", entry, site, site, maxDepth))
		edges = append(edges, &rankEdge{from: root.fn, to: callee, site: fmt.Sprintf("%s -> %s #%d (%s)", fnKey(root.fn), fnKey(callee), k, e.posString(ins.Pos())), guardOb: g})
	}
	e.prepareExempt("C02", recFns, opts)
	rs := e.verifyAll(recFns, opts, nil)
	// size and token limits: the contracts of the two tokenizer entry points
	var lim []*ssa.Function
	for _, k := range []string{"sql/tokenizer.(*Tokenizer).Tokenize", "sql/tokenizer.(*Tokenizer).TokenizeContext"} {
		if f := e.Fn(k); f != nil {
			lim = append(lim, f)
		}
	}
	limRes := e.verifyAll(lim, &VCOpts{InlineDepth: 1}, nil)
	rs = append(rs, limRes...)
	run := &PropRun{
		Results: rs, FUC: fucList(rs),
		Claim: func(o *Obligation) bool {
			if o.Kind == "rank" || o.Kind == "rankq" {
				return true
			}
			return strings.HasPrefix(o.Fn, "sql/tokenizer.") && (o.Kind == "post" || o.Kind == "inv-init" || o.Kind == "inv-pres") &&
				(strings.Contains(o.Name, "MaxTokens") || strings.Contains(o.Name, "MaxInputSize"))
		},
	}
	run.PostDischarge = func() {
		// guarded edges are those whose guard query was proved; the unguarded ones must form no cycle
		ung := map[*ssa.Function][]*rankEdge{}
		nGuarded := 0
		// the generator may run several (Houdini) rounds per function: keep the edges of the final round only
		live := map[*Obligation]bool{}
		for _, r := range run.Results {
			for _, o := range r.Obls {
				live[o] = true
			}
		}
		var finalEdges []*rankEdge
		for _, ed := range edges {
			if live[ed.guardOb] {
				finalEdges = append(finalEdges, ed)
			}
		}
		edges = finalEdges
		for _, ed := range edges {
			if os.Getenv("GOVC_TRACE") != "" {
				fmt.Fprintf(os.Stderr, "edge %s guard=%s\n", ed.site, ed.guardOb.Answer)
			}
			if ed.guardOb.Answer == "unsat" {
				nGuarded++
			} else {
				ung[ed.from] = append(ung[ed.from], ed)
			}
		}
		// drop the query obligations from the claimed set (they are questions, not claims)
		for _, r := range run.Results {
			var keep []*Obligation
			for _, o := range r.Obls {
				if o.Kind != "rankq" {
					keep = append(keep, o)
				}
			}
			r.Obls = keep
		}
		// cycles in the unguarded subgraph: one obligation per SCC of unguarded edges
		succU := map[*ssa.Function][]*ssa.Function{}
		for f, es := range ung {
			for _, ed := range es {
				succU[f] = append(succU[f], ed.to)
			}
		}
		syn := &FnResult{Fn: "parser call graph"}
		for _, comp := range sccs(recFns, succU) {
			cyc := len(comp) > 1
			if len(comp) == 1 {
				for _, g := range succU[comp[0]] {
					if g == comp[0] {
						cyc = true
					}
				}
			}
			if !cyc {
				continue
			}
			in := map[*ssa.Function]bool{}
			var names []string
			for _, f := range comp {
				in[f] = true
				names = append(names, strings.TrimPrefix(fnKey(f), "sql/parser.(*Parser)."))
			}
			sort.Strings(names)
			// one failed obligation per unguarded edge inside the cycle
			for _, f := range comp {
				for _, ed := range ung[f] {
					if in[ed.to] {
						syn.Obls = append(syn.Obls, &Obligation{Name: "sql/parser/rank/unguarded-cycle-edge:" + strings.ReplaceAll(ed.site, "sql/parser.(*Parser).", ""), Kind: "rank", Fn: fnKey(ed.from),
							Pos: ed.site, Answer: "sat", Solver: "call-graph analysis over the discharged guard queries", Desc: "cycle of calls none of which is preceded by a checked depth increment: {" + strings.Join(names, ", ") + "}"})
					}
				}
			}
		}
		syn.Obls = append(syn.Obls, &Obligation{Name: "sql/parser/rank/measure-exists", Kind: "rank", Fn: "parser", Answer: map[bool]string{true: "unsat", false: "sat"}[len(syn.Obls) == 0], Solver: "call-graph analysis over the discharged guard queries",
			Desc: fmt.Sprintf("lexicographic measure (MaxRecursionDepth+1-depth, rank) exists: %d recursive functions, %d intra-SCC call sites, %d guarded", len(recFns), len(edges), nGuarded)})
		run.Results = append(run.Results, syn)
		run.Extra = map[string]any{"recursive_functions": len(recFns), "intra_scc_call_sites": len(edges), "guarded_call_sites": nGuarded}
	}
	run.Explanation = "Limits: Tokenize and TokenizeContext prove len(input) > MaxInputSize => error, the main-loop invariant len(tokens) <= MaxTokens (so the token limit is enforced at every iteration, for every input) and len(result) <= MaxTokens+1. Nesting: every function of package parser on a cycle of the static call graph gets the termination measure (MaxRecursionDepth+1-p.depth, rank). For every call site inside a recursive component the VC generator evaluates p.depth at the site against p.depth at entry (heap model, deferred decrement, callee contracts depth == old(depth)): obligation depth-nondecreasing (the measure never grows) and the query guarded (entry+1 <= depth <= MaxRecursionDepth at the site, i.e. the call is reached only after a checked increment). A rank exists iff the unguarded call sites form no cycle; each edge of such a cycle is reported as a failed obligation. Stack depth is then bounded by (MaxRecursionDepth+1)*|component| frames independently of input length."
	run.NotCovered = []string{"byte size of frames", "tokenizer comment recursion and AST walkers (bounded by tree depth)", "that the limit errors carry exactly the dedicated codes E1006/E1007/E2007 (C13 proves the family only)", "input exactly at a limit is not rejected for that reason"}
	run.Assumptions = []string{"static call graph: calls through interfaces or function values inside the parser package are not followed (none on the parse paths)"}
	return run
}
