package main

import (
	"golang.org/x/tools/go/ssa"
	"strings"
)

func init() {
	register(&propDriver{ID: "C04", Title: "The token stream is a faithful, layout-independent reading of the text", Run: runC04})
	register(&propDriver{ID: "C05", Title: "Reported source positions point at the right characters", Run: runC05})
}

func tokenizerFns(e *Engine, names ...string) []*ssa.Function {
	var out []*ssa.Function
	for _, n := range names {
		if f := e.Fn("sql/tokenizer.(*Tokenizer)." + n); f != nil {
			out = append(out, f)
		}
	}
	return out
}

func runC04(e *Engine, tier Tier) *PropRun {
	o4 := &VCOpts{InlineDepth: 1, CheckTags: map[string]bool{"C04": true}}
	e.prepareExempt("C04", e.sourceFns(func(fn *ssa.Function, file string) bool {
		return fn.Parent() == nil && strings.HasPrefix(file, "pkg/sql/tokenizer/")
	}), o4)
	rs := e.verifyAll(tokenizerFns(e, "Tokenize", "TokenizeContext", "readPunctuation"), o4, nil)
	return &PropRun{
		Results: rs, FUC: fucList(rs),
		Claim: func(o *Obligation) bool {
			return o.Kind == "post" || o.Kind == "inv-init" || o.Kind == "inv-pres"
		},
		Level:       "other",
		Explanation: "Three clauses of the property, proved for every input. (0) A block comment ends at the first terminator after its opening: loop invariant of the comment-skipping loop of readPunctuation, quantified over the bytes already passed (no \"*/\" among them; a '*' just passed is not followed by '/'), discharged with the byte-level facts of the utf8.DecodeRune contract. (1) Faithful reading of operators and punctuation: every token readPunctuation builds itself (no word, not a string literal, no comment skipped on the way, not the content of a dollar-quoted string, not a named placeholder) has as its value exactly the bytes the cursor moved over - one obligation per return site (about 175), so a branch that consumes more or fewer bytes than the text it reports fails its obligation. (2) A successful Tokenize / TokenizeContext returns a non-empty stream whose last token is the end-of-input marker and none of whose earlier tokens is (quantified postcondition; quantified invariant of the main loop over the token slice, with the append semantics of the slice model).",
		NotCovered:  []string{"verbatim reading of identifiers, numbers, string literals and named placeholders (their values are decoded or assembled by other readers)", "kind and decoded value of each lexical element (maximal munch, number grammar, escape decoding): functional reader contracts against a lexical spec are not built", "comments captured with their exact text beyond the end of block comments (line comments, nesting)", "layout independence (separators, keyword case)", "compound-keyword look-ahead across whitespace vs comments"},
	}
}

func runC05(e *Engine, tier Tier) *PropRun {
	o5 := &VCOpts{InlineDepth: 1, CheckTags: map[string]bool{"C05": true}}
	e.prepareExempt("C05", e.sourceFns(func(fn *ssa.Function, file string) bool {
		return fn.Parent() == nil && (strings.HasPrefix(file, "pkg/sql/tokenizer/") || file == "pkg/sql/parser/token_conversion.go")
	}), o5)
	fns := tokenizerFns(e, "toSQLPosition", "getCurrentPosition")
	// parser side: the position mapping has one entry per parser token, and an error is located at the token the cursor is on
	for _, k := range []string{"sql/parser.(*tokenConverter).convert", "sql/parser.convertModelTokensWithPositions", "sql/parser.(*Parser).currentLocation"} {
		if f := e.Fn(k); f != nil {
			fns = append(fns, f)
		}
	}
	rs := e.verifyAll(fns, o5, nil)
	return &PropRun{
		Results: rs, FUC: fucList(rs),
		Claim: func(o *Obligation) bool {
			return o.Kind == "post" || o.Kind == "inv-init" || o.Kind == "inv-pres"
		},
		Level:       "other",
		Explanation: "Two clauses of the property, proved for every input and cursor: the locations computed by toSQLPosition / getCurrentPosition (every token start and end, every comment span and every tokenizer error location built from them) are 1-based (Line >= 1, Column >= 1) and their line is one of the input's lines (Line <= number of line starts); loop invariants on both scanning loops. Parser side (the location carried by a position-tracking parser error): the position mapping built by the token conversion has exactly one entry per parser token - also where a compound keyword is expanded into several tokens (postcondition of tokenConverter.convert and convertModelTokensWithPositions, invariants on the conversion loop and on the expansion loop) -, so entry i describes token i; and currentLocation returns the start recorded for the token under the cursor, or the zero location when there is no mapping or the cursor is past it (functional postcondition), never another token's span.",
		NotCovered:  []string{"that line and column are the right ones (functional spec lineOf/colOf needs the line-table invariant established by Tokenize's pre-scan: not built)", "monotonicity along the stream and end <= next start", "a token after a comment is located at its own first character", "error locations built from raw cursor fields (3 sites)", "that the span stored for parser token i is the span of the source token it came from (content of the mapping; only its length and the look-up are under contract)", "1-based / in-input for every element of the returned token slice as a quantified postcondition of Tokenize: tried, not dischargeable - readPunctuation appends comment spans to t.Comments, the flat per-field heap has no region separation between that slice and the token slice, so the call havocs the Location cells of the tokens already appended"},
	}
}
