package main

import (
	"fmt"
	"go/types"
	"strings"

	"golang.org/x/tools/go/ssa"
)

func init() {
	register(&propDriver{ID: "C08", Title: "Results never depend on what a reused or pooled object did before", Run: runC08})
}

// freshSpec: the value each field has in a newly constructed instance (what the pool's New() yields),
// written from the constructors New()/&Parser{}; a field without an entry must be the zero value.
// "any" = holder-independent configuration object whose identity cannot be compared (explained in evidence).
var freshTokenizer = map[string]string{
	"pos.Line":       "1",
	"pos.Column":     "1",
	"lineStarts#len": "1",
	"lineStarts#ptr": "any", // checked through lineStarts[0] == 0 below
	"lineStarts#cap": "any",
	"keywords":       "any", // rebuilt by PutTokenizer whenever the dialect is not the default; tied to `dialect`
	"dialect":        "str:postgresql",
}

// poolPutSchema: at the call pool.Put(x) inside fn, every field of *x equals its fresh value.
func poolPutSchema(e *Engine, fnKeyName string, elem types.Type, spec map[string]string, extra func(fr *Frame, st *State, ptr string) []string) *FnResult {
	fn := e.Fn(fnKeyName)
	if fn == nil {
		return &FnResult{Fn: fnKeyName, Unsupported: []string{"function not found"}}
	}
	n := 0
	opts := &VCOpts{InlineDepth: 2}
	opts.OnCall = func(fr *Frame, ins ssa.CallInstruction, callee *ssa.Function, args []Val) {
		if callee == nil || callee.String() != "(*sync.Pool).Put" || fr.parent != nil {
			return
		}
		n++
		q := fr.q
		st := fr.cur.st
		ptr := args[1].C[1] // payload of the interface argument
		q.addObligation(fr, "schema", fmt.Sprintf("fresh(%s):non-nil", shortType(elem)), ins.Pos(), fr.cur.reach, fmt.Sprintf("(and (= %s %d) (not (= %s 0)))", args[1].C[0], typeID(types.NewPointer(elem)), ptr))
		l := layoutOf(elem)
		v := fr.load(st, ptr, elem)
		for i, lf := range l.leaves {
			want := zeroOf(lf.Sort)
			if s, ok := spec[lf.Path]; ok {
				switch {
				case s == "any":
					continue
				case strings.HasPrefix(s, "str:"):
					want = q.strConst(strings.TrimPrefix(s, "str:"))
				default:
					want = s
				}
			}
			// whole-field "any"
			skip := false
			for k, s := range spec {
				if s == "any" && (strings.HasPrefix(lf.Path, k+".") || strings.HasPrefix(lf.Path, k+"#")) {
					skip = true
				}
			}
			if skip {
				continue
			}
			if lf.Comp == "cap" {
				continue // capacity of an empty slice is not observable through the API
			}
			if lf.Comp == "ptr" {
				// a nil or empty slice: the pointer matters only together with a non-zero length
				continue
			}
			q.addObligation(fr, "schema", fmt.Sprintf("fresh(%s.%s)", shortType(elem), lf.Path), ins.Pos(), fr.cur.reach, sEq(v.C[i], want))
		}
		if extra != nil {
			for k, c := range extra(fr, st, ptr) {
				q.addObligation(fr, "schema", fmt.Sprintf("fresh(%s):extra%d", shortType(elem), k), ins.Pos(), fr.cur.reach, c)
			}
		}
	}
	r := e.verifyFn(fn, opts, nil)
	if n == 0 {
		r.Unsupported = append(r.Unsupported, "no pool.Put call found")
		r.Obls = append(r.Obls, &Obligation{Name: fnKeyName + "/schema/pool.Put-site-exists", Kind: "schema", Fn: fnKeyName, Guard: "true", Cond: "false"})
	}
	return r
}

func runC08(e *Engine, tier Tier) *PropRun {
	var rs []*FnResult
	// 1. reset-to-fresh at the pool boundary
	if sp := e.SPkgs[modPath+"/pkg/sql/parser"]; sp != nil {
		if tn := sp.Pkg.Scope().Lookup("Parser"); tn != nil {
			rs = append(rs, poolPutSchema(e, "sql/parser.PutParser", tn.Type(), map[string]string{}, nil))
		}
	}
	if sp := e.SPkgs[modPath+"/pkg/sql/tokenizer"]; sp != nil {
		if tn := sp.Pkg.Scope().Lookup("Tokenizer"); tn != nil {
			rs = append(rs, poolPutSchema(e, "sql/tokenizer.PutTokenizer", tn.Type(), freshTokenizer, func(fr *Frame, st *State, ptr string) []string {
				// lineStarts == [0]
				env := newSpecEnv(fr, fr.fn)
				env.st, env.old = st, st
				env.names["t"] = SV{T: types.NewPointer(tn.Type()), V: Val{C: []string{ptr}}}
				c, err := parseClause("len(t.lineStarts) == 1 && t.lineStarts[0] == 0")
				if err != nil {
					return nil
				}
				t, err := env.evalBool(c.Expr)
				if err != nil {
					return []string{"false"}
				}
				return []string{t}
			}))
		}
	}
	// 2./3. assign-before-read and restoration on every path: the contracts of the parser entry points and the
	// default contract of every (*Parser) method (depth restored, configuration and inputs untouched)
	opts := &VCOpts{InlineDepth: 2, NoContents: true}
	fns := e.sourceFns(func(fn *ssa.Function, file string) bool {
		if fn.Parent() != nil || !strings.HasPrefix(file, "pkg/sql/parser/") {
			return false
		}
		return e.contractFor(fn, opts) != nil
	})
	e.prepareExempt("C08", fns, opts)
	rs = append(rs, e.verifyAll(fns, opts, nil)...)
	// 4. assign-before-read at the entry points: a field of the receiver that is read (by the entry point, by a helper
	// executed in place, or possibly by a callee under contract - transitive read sets) must have been assigned by this
	// very call, unless it is configuration or a field the contracts above prove restored
	parserAllow := map[string]string{
		"strict":  "configuration (set by options, kept across calls by design)",
		"dialect": "configuration (set by options, kept across calls by design)",
		"depth":   "restored by every call (default contract: depth == old(depth)), so it is the constructor's value",
		"ctx#tag": "nil between calls (ParseContext contract: ctx restored on every exit)",
		"ctx#val": "nil between calls (ParseContext contract: ctx restored on every exit)",
	}
	tokAllow := map[string]string{
		"keywords":       "configuration (keyword table of the tokenizer's dialect)",
		"dialect":        "configuration",
		"lineStarts#ptr": "Reset reuses the backing array of the line table; its elements are rewritten before they are read",
		"lineStarts#cap": "Reset reuses the backing array of the line table; its elements are rewritten before they are read",
		"lineStarts#len": "Reset truncates the line table before refilling it",
	}
	for _, grp := range []struct {
		keys  []string
		allow map[string]string
	}{
		{[]string{"sql/parser.(*Parser).Parse", "sql/parser.(*Parser).ParseContext", "sql/parser.(*Parser).ParseWithPositions", "sql/parser.(*Parser).parseWithRecovery"}, parserAllow},
		{[]string{"sql/tokenizer.(*Tokenizer).Tokenize", "sql/tokenizer.(*Tokenizer).TokenizeContext"}, tokAllow},
	} {
		var efs []*ssa.Function
		for _, k := range grp.keys {
			if f := e.Fn(k); f != nil {
				efs = append(efs, f)
			}
		}
		ropts := &VCOpts{InlineDepth: 2, NoContents: true, TrackReads: grp.allow, CheckTags: map[string]bool{"-": true}}
		for _, r := range e.verifyAll(efs, ropts, nil) {
			kept := r.Obls[:0:0]
			for _, o := range r.Obls {
				if o.Kind == "reads" {
					kept = append(kept, o)
				}
			}
			r.Obls = kept
			rs = append(rs, r)
		}
	}
	return &PropRun{
		Results: rs, FUC: fucList(rs),
		Explanation: "Three families of obligations. (1) Schema fresh(T.f), instantiated from go/types for every field of parser.Parser and tokenizer.Tokenizer: at the pool.Put call of PutParser/PutTokenizer every field equals its value in a newly constructed instance (zero unless the constructor says otherwise), so a field added later gets an obligation automatically. (2) Per-call state is assigned before it is read: the entry points' loop invariants state that tokens/positions/cursor hold this call's values when the statement loop starts (positions == nil for position-less parses). (3) Restoration on every path: every (*Parser) method proves depth == old(depth) (deferred decrement modelled), cursor monotone, tokens/positions/strict/dialect untouched; entry points prove ctx cleared, depth and configuration unchanged on every exit. Loop invariants are inferred Houdini-style from the contract clauses and then checked like written ones.",
		NotCovered:  []string{"equality of the keyword table object with a freshly built one (pointer identity is not comparable; tied to the dialect field by PutTokenizer's branch)", "Tokenizer.Tokenize assign-before-read (covered by the C04/C05 contracts when claimed)", "gosqlx wrappers that reuse one parser across a batch rely on these contracts (no separate obligation)"},
		Assumptions: []string{"sync.Pool hands out only values that were Put or created by New"},
	}
}
