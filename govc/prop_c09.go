package main

import (
	"fmt"
	"go/types"
	"strings"

	"golang.org/x/tools/go/ssa"
)

func init() {
	register(&propDriver{ID: "C09", Title: "Returned values belong to the caller; pooled nodes come back clean", Run: runC09})
}

// putSiteType: static type of the value handed to pool.Put (the operand of the MakeInterface feeding the call)
func putSiteType(ins ssa.CallInstruction) types.Type {
	c := ins.Common()
	if len(c.Args) < 2 {
		return nil
	}
	if mi, ok := c.Args[1].(*ssa.MakeInterface); ok {
		return mi.X.Type()
	}
	return nil
}

func runC09(e *Engine, tier Tier) *PropRun {
	opts := &VCOpts{InlineDepth: 0, ProtectParams: true}
	sites := 0
	opts.OnCall = func(fr *Frame, ins ssa.CallInstruction, callee *ssa.Function, args []Val) {
		if callee == nil || callee.String() != "(*sync.Pool).Put" || fr.parent != nil {
			return
		}
		t := putSiteType(ins)
		if t == nil {
			return
		}
		pt, ok := underlying(t).(*types.Pointer)
		if !ok {
			return
		}
		if n, ok := pt.Elem().(*types.Named); !ok || n.Obj().Pkg() == nil || n.Obj().Pkg().Path() != modPath+"/pkg/sql/ast" {
			return // only node types declared in package ast (exprSlicePool and builderPool: see not_covered)
		}
		if _, ok := underlying(pt.Elem()).(*types.Struct); !ok {
			return
		}
		sites++
		q := fr.q
		st := fr.cur.st
		ptr := args[1].C[1]
		elem := pt.Elem()
		l := layoutOf(elem)
		v := fr.load(st, ptr, elem)
		// which pool: name of the global if the receiver is one
		pool := describe(ins.Common().Args[0])
		for i, lf := range l.leaves {
			if lf.Comp == "cap" || lf.Comp == "ptr" {
				continue // an empty slice keeps its backing array on purpose; only its length is observable
			}
			if lf.Comp == "val" {
				continue // decided together with the tag
			}
			want := zeroOf(lf.Sort)
			path := lf.Path
			if path == "" {
				path = "*"
			}
			q.addObligation(fr, "schema", fmt.Sprintf("pool_clean(%s:%s.%s)", pool, shortType(elem), strings.TrimSuffix(strings.TrimSuffix(path, "#len"), "#tag")), ins.Pos(), fr.cur.reach, sEq(v.C[i], want))
		}
	}
	fns := e.sourceFns(func(fn *ssa.Function, file string) bool {
		if fn.Parent() != nil {
			return false
		}
		if !strings.HasPrefix(file, "pkg/sql/ast/") {
			return false // the node pools; Parser/Tokenizer pools are decided by C08
		}
		// only functions that contain a pool.Put call
		for _, b := range fn.Blocks {
			for _, ins := range b.Instrs {
				if c, ok := ins.(ssa.CallInstruction); ok {
					if f := c.Common().StaticCallee(); f != nil && f.String() == "(*sync.Pool).Put" {
						return true
					}
				}
			}
		}
		return false
	})
	rs := e.verifyAll(fns, opts, nil)
	// ownership of returned slices: functions carrying an @C09 clause (isnew(result))
	own := e.sourceFns(func(fn *ssa.Function, file string) bool {
		if fn.Parent() != nil {
			return false
		}
		ct := e.contractFor(fn, nil)
		if ct == nil {
			return false
		}
		for _, en := range ct.Ensures {
			if en.Tag == "C09" {
				return true
			}
		}
		return false
	})
	o9 := &VCOpts{InlineDepth: 1, CheckTags: map[string]bool{"C09": true}}
	e.prepareExempt("C09", e.sourceFns(func(fn *ssa.Function, file string) bool {
		return fn.Parent() == nil && (strings.HasPrefix(file, "pkg/sql/tokenizer/") || strings.HasPrefix(file, "pkg/sql/parser/"))
	}), o9)
	rs = append(rs, e.verifyAll(own, o9, nil)...)
	return &PropRun{
		Results: rs, FUC: fucList(rs),
		Claim: func(o *Obligation) bool {
			return o.Kind == "schema" || ((o.Kind == "post" || o.Kind == "inv-init" || o.Kind == "inv-pres") && strings.Contains(o.Name, "isnew("))
		},
		Explanation: "Ownership of returned values: Tokenize / TokenizeContext and the token conversion (convert, convertModelTokens, convertModelTokensWithPositions) return slices allocated by the call itself (postcondition isnew(result): the address lies above the allocation mark of the entry state), so no scratch buffer kept by a tokenizer or converter is handed out. " + fmt.Sprintf("Schema pool_clean(pool:T.f), instantiated from go/types for every sync.Pool.Put call site (%d sites) in the AST package (the node pools) and every field f of the pooled type T: at the Put call the field holds its zero value (slices: length 0), for all inputs and all paths through the releasing function, including the per-type cases of the iterative PutExpression. A field added to a pooled node type gets its obligations without anyone writing a test.", sites),
		NotCovered:  []string{"exprSlicePool (*[]Expression: elements are niled at Put and the length is reset at Get; element-wise cleanliness across PutExpression's writes needs a separation argument that is not built)", "builderPool (strings.Builder, reset by the standard library)", "the all-interleavings clause (answered by ownership: a node is reachable from one live tree or one pool; goroutine-level claims are C10)", "no-retained-alias of token values", "release affects only the released tree (frame over reachability)"},
		Assumptions: []string{"sync.Pool hands out only values that were Put or created by New", "AST acyclicity: the node passed to a Put function is not reachable from its own children, so releasing the children leaves its fields alone"},
		Extra:       map[string]any{"put_sites": sites},
	}
}
