package main

// C10 — ownership discipline of all package-level state + rely/guarantee stability of the metrics updates (DESIGN 4.10).

import (
	"fmt"
	"go/token"
	"go/types"
	"os"
	"sort"
	"strings"

	"golang.org/x/tools/go/ssa"
)

func init() {
	register(&propDriver{ID: "C10", Title: "Concurrent use gives the sequential results, race-free, with exact metrics", Run: runC10})
}

func isSyncType(t types.Type) bool {
	n, ok := t.(*types.Named)
	if !ok || n.Obj().Pkg() == nil {
		return false
	}
	p := n.Obj().Pkg().Path()
	return p == "sync" || p == "sync/atomic"
}

func isInitFn(fn *ssa.Function) bool {
	for f := fn; f != nil; f = f.Parent() {
		if f.Name() == "init" || strings.HasPrefix(f.Name(), "init#") {
			return true
		}
		if onceInit[f] {
			return true
		}
	}
	return false
}

// onceInit: functions whose only use is as the argument of (*sync.Once).Do (computed per run)
var onceInit = map[*ssa.Function]bool{}

func computeOnceInit(e *Engine) {
	onceInit = map[*ssa.Function]bool{}
	asOnceArg := map[*ssa.Function]int{}
	other := map[*ssa.Function]int{}
	for _, fn := range e.allFns {
		if fn.Blocks == nil || !e.inRepo(fn) {
			continue
		}
		for _, b := range fn.Blocks {
			for _, ins := range b.Instrs {
				if _, isDbg := ins.(*ssa.DebugRef); isDbg {
					continue
				}
				for _, op := range ins.Operands(nil) {
					f, ok := (*op).(*ssa.Function)
					if !ok {
						continue
					}
					isOnce := false
					if c, ok := ins.(ssa.CallInstruction); ok {
						if callee := c.Common().StaticCallee(); callee != nil && callee.String() == "(*sync.Once).Do" && len(c.Common().Args) == 2 && c.Common().Args[1] == f {
							isOnce = true
						}
					}
					if isOnce {
						asOnceArg[f]++
					} else {
						other[f]++
					}
				}
			}
		}
	}
	for f, n := range asOnceArg {
		if os.Getenv("GOVC_TRACE") != "" {
			fmt.Fprintf(os.Stderr, "once-arg %s n=%d other=%d\n", f.String(), n, other[f])
		}
		if n > 0 && other[f] == 0 {
			onceInit[f] = true
		}
	}
}

// onceDominates: a once.Do(<once-initialiser>) call in the function dominates the instruction
func onceDominates(ins ssa.Instruction) bool {
	fn := ins.Parent()
	for _, b := range fn.Blocks {
		for i, x := range b.Instrs {
			c, ok := x.(ssa.CallInstruction)
			if !ok {
				continue
			}
			callee := c.Common().StaticCallee()
			if callee == nil || callee.String() != "(*sync.Once).Do" {
				continue
			}
			if b == ins.Block() {
				for j, y := range b.Instrs {
					if y == ins && j > i {
						return true
					}
				}
				continue
			}
			if b.Dominates(ins.Block()) {
				return true
			}
		}
	}
	return false
}

type access struct {
	fn    *ssa.Function
	ins   ssa.Instruction
	write bool
	what  string
}

// lockDominates: some (RW)Mutex Lock/RLock call in the function dominates the instruction
func lockDominates(ins ssa.Instruction, needWrite bool) bool {
	fn := ins.Parent()
	for _, b := range fn.Blocks {
		for i, x := range b.Instrs {
			c, ok := x.(ssa.CallInstruction)
			if !ok {
				continue
			}
			callee := c.Common().StaticCallee()
			if callee == nil {
				continue
			}
			full := callee.String()
			isLock := full == "(*sync.Mutex).Lock" || full == "(*sync.RWMutex).Lock" || (!needWrite && full == "(*sync.RWMutex).RLock")
			if !isLock {
				continue
			}
			if b == ins.Block() {
				for j, y := range b.Instrs {
					if y == ins && j > i {
						return true
					}
				}
				continue
			}
			if b.Dominates(ins.Block()) {
				return true
			}
		}
	}
	return false
}

// usesOf classifies what is done with a value loaded from (or addressing into) shared state
func classifyUses(v ssa.Value, depth int, out *[]access, what string) {
	if depth > 5 {
		return
	}
	refs := v.Referrers()
	if refs == nil {
		return
	}
	for _, r := range *refs {
		switch x := r.(type) {
		case *ssa.DebugRef:
		case *ssa.Store:
			if x.Addr == v {
				*out = append(*out, access{x.Parent(), x, true, what + " store"})
			}
		case *ssa.MapUpdate:
			if x.Map == v {
				*out = append(*out, access{x.Parent(), x, true, what + " map update"})
			}
		case *ssa.Lookup:
			if x.X == v {
				*out = append(*out, access{x.Parent(), x, false, what + " map read"})
			}
		case *ssa.Range:
			*out = append(*out, access{x.Parent(), x, false, what + " range"})
		case *ssa.UnOp:
			if x.Op == token.MUL {
				*out = append(*out, access{x.Parent(), x, false, what + " load"})
				classifyUses(x, depth+1, out, what)
			}
		case *ssa.FieldAddr:
			st := underlying(x.X.Type().(*types.Pointer).Elem()).(*types.Struct)
			ft := st.Field(x.Field).Type()
			if isSyncType(ft) {
				continue
			}
			classifyFieldAddr(x, depth+1, out, what+"."+st.Field(x.Field).Name())
		case *ssa.IndexAddr:
			classifyUses(x, depth+1, out, what+"[]")
		case ssa.CallInstruction:
			c := x.Common()
			if b, ok := c.Value.(*ssa.Builtin); ok {
				switch b.Name() {
				case "delete", "clear":
					*out = append(*out, access{x.Parent(), x, true, what + " " + b.Name()})
				case "append":
					// appending to a shared slice value: a write to its backing array
					if len(c.Args) > 0 && c.Args[0] == v {
						*out = append(*out, access{x.Parent(), x, true, what + " append"})
					}
				}
			}
		}
	}
}

func classifyFieldAddr(fa *ssa.FieldAddr, depth int, out *[]access, what string) {
	refs := fa.Referrers()
	if refs == nil {
		return
	}
	for _, r := range *refs {
		switch x := r.(type) {
		case ssa.CallInstruction:
			if f := x.Common().StaticCallee(); f != nil && (strings.HasPrefix(f.String(), "sync/atomic.") || strings.HasPrefix(f.String(), "(*sync")) {
				continue // atomic or lock operation on the field itself
			}
		case *ssa.Store:
			if x.Addr == fa {
				*out = append(*out, access{x.Parent(), x, true, what + " store"})
			}
		case *ssa.UnOp:
			if x.Op == token.MUL {
				*out = append(*out, access{x.Parent(), x, false, what + " load"})
				classifyUses(x, depth+1, out, what)
			}
		case *ssa.FieldAddr:
			classifyFieldAddr(x, depth+1, out, what)
		case *ssa.IndexAddr:
			classifyUses(x, depth+1, out, what+"[]")
		}
	}
}

func runC10(e *Engine, tier Tier) *PropRun {
	computeOnceInit(e)
	syn := &FnResult{Fn: "package-level state"}
	nvars, nImm, nSync, nGuard := 0, 0, 0, 0
	var pkgs []string
	for p := range e.SPkgs {
		if strings.HasPrefix(p, modPath+"/pkg/") && !strings.Contains(p, "/testing") && !strings.HasSuffix(p, "/cbinding") {
			pkgs = append(pkgs, p)
		}
	}
	sort.Strings(pkgs)
	// index: global -> instructions that mention it
	uses := map[*ssa.Global][]ssa.Instruction{}
	for _, fn := range e.allFns {
		if fn.Blocks == nil || !e.inRepo(fn) {
			continue
		}
		for _, b := range fn.Blocks {
			for _, ins := range b.Instrs {
				for _, op := range ins.Operands(nil) {
					if g, ok := (*op).(*ssa.Global); ok {
						uses[g] = append(uses[g], ins)
					}
				}
			}
		}
	}
	for _, pp := range pkgs {
		sp := e.SPkgs[pp]
		var names []string
		for n := range sp.Members {
			names = append(names, n)
		}
		sort.Strings(names)
		for _, n := range names {
			g, ok := sp.Members[n].(*ssa.Global)
			if !ok || strings.HasPrefix(n, "init$") {
				continue
			}
			nvars++
			elem := g.Type().(*types.Pointer).Elem()
			short := strings.TrimPrefix(pp, modPath+"/pkg/") + "." + n
			if isSyncType(elem) {
				nSync++
				syn.Obls = append(syn.Obls, &Obligation{Name: "own:" + short, Kind: "own", Fn: short, Answer: "unsat", Solver: "ownership analysis", Desc: "synchronisation object (" + elem.String() + ")"})
				continue
			}
			var acc []access
			for _, ins := range uses[g] {
				if isInitFn(ins.Parent()) {
					continue
				}
				switch x := ins.(type) {
				case *ssa.Store:
					if x.Addr == g {
						acc = append(acc, access{x.Parent(), x, true, "store to the variable"})
					}
				case *ssa.UnOp:
					if x.Op == token.MUL && x.X == g {
						classifyUses(x, 0, &acc, "value")
					}
				case *ssa.FieldAddr:
					if x.X == g {
						st := underlying(elem).(*types.Struct)
						if !isSyncType(st.Field(x.Field).Type()) {
							classifyFieldAddr(x, 0, &acc, st.Field(x.Field).Name())
						}
					}
				case *ssa.IndexAddr:
					if x.X == g {
						classifyUses(x, 0, &acc, "[]")
					}
				}
			}
			written := false
			for _, a := range acc {
				if a.write {
					written = true
				}
			}
			onceOnly := false
			if !written {
				// written only inside once-initialisers? then reads must follow a once.Do in their function
				for _, ins := range uses[g] {
					if onceInit[ins.Parent()] {
						onceOnly = true
					}
				}
			}
			if onceOnly {
				var bad []string
				for _, a := range acc {
					if !onceDominates(a.ins) {
						bad = append(bad, fmt.Sprintf("%s in %s (%s) is not preceded by once.Do", a.what, fnKey(a.fn), e.posString(a.ins.Pos())))
					}
				}
				if len(bad) == 0 {
					nImm++
					syn.Obls = append(syn.Obls, &Obligation{Name: "own:" + short, Kind: "own", Fn: short, Answer: "unsat", Solver: "ownership analysis", Desc: "initialised once through sync.Once; every read is preceded by the once.Do call in its function"})
				} else {
					syn.Obls = append(syn.Obls, &Obligation{Name: "own:" + short, Kind: "own", Fn: short, Pos: bad[0], Answer: "sat", Solver: "ownership analysis", Desc: strings.Join(bad, "; ")})
				}
				continue
			}
			if !written {
				nImm++
				syn.Obls = append(syn.Obls, &Obligation{Name: "own:" + short, Kind: "own", Fn: short, Answer: "unsat", Solver: "ownership analysis", Desc: "immutable after initialisation (no store, map update, element store or append outside init)"})
				continue
			}
			// mutable: every access (read of the mutable parts and write) must be dominated by a lock acquisition
			var bad []string
			for _, a := range acc {
				if !lockDominates(a.ins, a.write) {
					bad = append(bad, fmt.Sprintf("%s in %s (%s)", a.what, fnKey(a.fn), e.posString(a.ins.Pos())))
				}
			}
			if len(bad) == 0 {
				nGuard++
				syn.Obls = append(syn.Obls, &Obligation{Name: "own:" + short, Kind: "own", Fn: short, Answer: "unsat", Solver: "ownership analysis", Desc: "every access is dominated by a Lock/RLock in its function"})
				continue
			}
			sort.Strings(bad)
			if len(bad) > 6 {
				bad = append(bad[:6], fmt.Sprintf("... and %d more", len(bad)-6))
			}
			syn.Obls = append(syn.Obls, &Obligation{Name: "own:" + short, Kind: "own", Fn: short, Pos: bad[0], Answer: "sat", Solver: "ownership analysis", Desc: "unsynchronised access to mutable package-level state: " + strings.Join(bad, "; ")})
		}
	}
	// rely/guarantee on the metrics cells
	opts := &VCOpts{InlineDepth: 1, NoContents: true, RG: true}
	fns := e.sourceFns(func(fn *ssa.Function, file string) bool {
		return fn.Parent() == nil && strings.HasPrefix(file, "pkg/metrics/")
	})
	rs := e.verifyAll(fns, opts, nil)
	rs = append(rs, syn)
	return &PropRun{
		Results: rs, FUC: fucList(rs),
		Claim: func(o *Obligation) bool {
			if o.Kind == "rg" && o.Fn == "metrics.Reset" {
				return false // administrative re-initialisation: statistics are exact between resets (documented in not_covered)
			}
			return o.Kind == "own" || o.Kind == "rg"
		},
		Explanation: fmt.Sprintf("(1) Ownership discipline: one obligation own:<var> for each of the %d package-level variables of the library packages (enumerated from go/ssa): it is a sync/atomic object (%d), or immutable after initialisation - no store, map update, element store or append outside init, followed through loads, field and index addressing (%d) -, or every access is dominated by a Lock/RLock (%d); anything else fails with the offending sites. (2) Exact metrics under interference: rely/guarantee obligations rg:<cell> at every sync/atomic Store/Add/Swap/CompareAndSwap of a cell with an rg specification in pkg/metrics/contracts_verif.go: the update must satisfy the cell's guarantee for every value the cell may hold at that instant, i.e. every value rely-reachable from what this thread last loaded (for a successful CompareAndSwap: exactly the expected value).", nvars, nSync, nImm, nGuard),
		NotCovered:  []string{"the Go memory model / all schedules (a sequential VC generator cannot quantify over them; the race detector is a different family)", "objects the caller shares between goroutines against the documented contract", "returns-what-it-returns-alone is the consequence of C08 + C09 + ownership, argued not proved", "lock/unlock pairing beyond dominance by an acquisition", "cmd/ packages", "metrics.Reset (re-initialises the cells; the totals are exact between two resets)"},
		Assumptions: []string{"sync.Pool, sync.Mutex, sync/atomic behave as documented", "a value loaded from an immutable table is not written through an alias obtained elsewhere"},
		Level:       "other",
		Extra:       map[string]any{"package_level_variables": nvars, "sync_objects": nSync, "immutable": nImm, "lock_guarded": nGuard},
	}
}
