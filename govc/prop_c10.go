package main

// C10 — ownership discipline of all package-level state + rely/guarantee stability of the metrics updates (DESIGN 4.10).

import (
	"fmt"
	"go/token"
	"go/types"
	"os"
	"sort"
	"strings"

	"golang.org/x/tools/go/ssa"
)

func init() {
	register(&propDriver{ID: "C10", Title: "Concurrent use gives the sequential results, race-free, with exact metrics", Run: runC10})
}

func isSyncType(t types.Type) bool {
	n, ok := t.(*types.Named)
	if !ok || n.Obj().Pkg() == nil {
		return false
	}
	p := n.Obj().Pkg().Path()
	return p == "sync" || p == "sync/atomic"
}

func isInitFn(fn *ssa.Function) bool {
	for f := fn; f != nil; f = f.Parent() {
		if f.Name() == "init" || strings.HasPrefix(f.Name(), "init#") {
			return true
		}
		if onceInit[f] {
			return true
		}
	}
	return false
}

// onceInit: functions whose only use is as the argument of (*sync.Once).Do (computed per run)
var onceInit = map[*ssa.Function]bool{}

func computeOnceInit(e *Engine) {
	onceInit = map[*ssa.Function]bool{}
	asOnceArg := map[*ssa.Function]int{}
	other := map[*ssa.Function]int{}
	for _, fn := range e.allFns {
		if fn.Blocks == nil || !e.inRepo(fn) {
			continue
		}
		for _, b := range fn.Blocks {
			for _, ins := range b.Instrs {
				if _, isDbg := ins.(*ssa.DebugRef); isDbg {
					continue
				}
				for _, op := range ins.Operands(nil) {
					f, ok := (*op).(*ssa.Function)
					if !ok {
						continue
					}
					isOnce := false
					if c, ok := ins.(ssa.CallInstruction); ok {
						if callee := c.Common().StaticCallee(); callee != nil && callee.String() == "(*sync.Once).Do" && len(c.Common().Args) == 2 && c.Common().Args[1] == f {
							isOnce = true
						}
					}
					if isOnce {
						asOnceArg[f]++
					} else {
						other[f]++
					}
				}
			}
		}
	}
	for f, n := range asOnceArg {
		if os.Getenv("GOVC_TRACE") != "" {
			fmt.Fprintf(os.Stderr, "once-arg %s n=%d other=%d\n", f.String(), n, other[f])
		}
		if n > 0 && other[f] == 0 {
			onceInit[f] = true
		}
	}
}

// onceDominates: a once.Do(<once-initialiser>) call in the function dominates the instruction
func onceDominates(ins ssa.Instruction) bool {
	fn := ins.Parent()
	for _, b := range fn.Blocks {
		for i, x := range b.Instrs {
			c, ok := x.(ssa.CallInstruction)
			if !ok {
				continue
			}
			callee := c.Common().StaticCallee()
			if callee == nil || callee.String() != "(*sync.Once).Do" {
				continue
			}
			if b == ins.Block() {
				for j, y := range b.Instrs {
					if y == ins && j > i {
						return true
					}
				}
				continue
			}
			if b.Dominates(ins.Block()) {
				return true
			}
		}
	}
	return false
}

type access struct {
	fn    *ssa.Function
	ins   ssa.Instruction
	write bool
	what  string
}

// lockDominates: some (RW)Mutex Lock/RLock call in the function dominates the instruction
func lockDominates(ins ssa.Instruction, needWrite bool) bool {
	fn := ins.Parent()
	for _, b := range fn.Blocks {
		for i, x := range b.Instrs {
			c, ok := x.(ssa.CallInstruction)
			if !ok {
				continue
			}
			callee := c.Common().StaticCallee()
			if callee == nil {
				continue
			}
			full := callee.String()
			isLock := full == "(*sync.Mutex).Lock" || full == "(*sync.RWMutex).Lock" || (!needWrite && full == "(*sync.RWMutex).RLock")
			if !isLock {
				continue
			}
			if b == ins.Block() {
				for j, y := range b.Instrs {
					if y == ins && j > i {
						return true
					}
				}
				continue
			}
			if b.Dominates(ins.Block()) {
				return true
			}
		}
	}
	return false
}

// usesOf classifies what is done with a value loaded from (or addressing into) shared state
func classifyUses(v ssa.Value, depth int, out *[]access, what string) {
	if depth > 5 {
		return
	}
	refs := v.Referrers()
	if refs == nil {
		return
	}
	for _, r := range *refs {
		switch x := r.(type) {
		case *ssa.DebugRef:
		case *ssa.Store:
			if x.Addr == v {
				*out = append(*out, access{x.Parent(), x, true, what + " store"})
			}
		case *ssa.MapUpdate:
			if x.Map == v {
				*out = append(*out, access{x.Parent(), x, true, what + " map update"})
			}
		case *ssa.Lookup:
			if x.X == v {
				*out = append(*out, access{x.Parent(), x, false, what + " map read"})
			}
		case *ssa.Range:
			*out = append(*out, access{x.Parent(), x, false, what + " range"})
		case *ssa.UnOp:
			if x.Op == token.MUL {
				*out = append(*out, access{x.Parent(), x, false, what + " load"})
				classifyUses(x, depth+1, out, what)
			}
		case *ssa.FieldAddr:
			st := underlying(x.X.Type().(*types.Pointer).Elem()).(*types.Struct)
			ft := st.Field(x.Field).Type()
			if isSyncType(ft) {
				continue
			}
			classifyFieldAddr(x, depth+1, out, what+"."+st.Field(x.Field).Name())
		case *ssa.IndexAddr:
			classifyUses(x, depth+1, out, what+"[]")
		case ssa.CallInstruction:
			c := x.Common()
			// shared state handed to a function of the repository: what the callee does with its parameter counts
			if f := c.StaticCallee(); f != nil && f.Blocks != nil && strings.HasPrefix(f.String(), "(") == (f.Signature.Recv() != nil) && strings.Contains(f.String(), modPath) {
				for i, a := range c.Args {
					if a == v && i < len(f.Params) {
						classifyUses(f.Params[i], depth+1, out, what)
					}
				}
			}
			if b, ok := c.Value.(*ssa.Builtin); ok {
				switch b.Name() {
				case "delete", "clear":
					*out = append(*out, access{x.Parent(), x, true, what + " " + b.Name()})
				case "append":
					// appending to a shared slice value: a write to its backing array
					if len(c.Args) > 0 && c.Args[0] == v {
						*out = append(*out, access{x.Parent(), x, true, what + " append"})
					}
				}
			}
		}
	}
}

func classifyFieldAddr(fa *ssa.FieldAddr, depth int, out *[]access, what string) {
	refs := fa.Referrers()
	if refs == nil {
		return
	}
	for _, r := range *refs {
		switch x := r.(type) {
		case ssa.CallInstruction:
			if f := x.Common().StaticCallee(); f != nil && (strings.HasPrefix(f.String(), "sync/atomic.") || strings.HasPrefix(f.String(), "(*sync")) {
				continue // atomic or lock operation on the field itself
			}
		case *ssa.Store:
			if x.Addr == fa {
				*out = append(*out, access{x.Parent(), x, true, what + " store"})
			}
		case *ssa.UnOp:
			if x.Op == token.MUL {
				*out = append(*out, access{x.Parent(), x, false, what + " load"})
				classifyUses(x, depth+1, out, what)
			}
		case *ssa.FieldAddr:
			classifyFieldAddr(x, depth+1, out, what)
		case *ssa.IndexAddr:
			classifyUses(x, depth+1, out, what+"[]")
		}
	}
}

// instrDominates: a is executed before b on every path to b (same function)
func instrDominates(a, b ssa.Instruction) bool {
	if a.Parent() != b.Parent() || a == b {
		return false
	}
	if a.Block() == b.Block() {
		for _, x := range a.Block().Instrs {
			if x == a {
				return true
			}
			if x == b {
				return false
			}
		}
		return false
	}
	return a.Block().Dominates(b.Block())
}

func syncCalls(fn *ssa.Function, names ...string) []ssa.Instruction {
	var out []ssa.Instruction
	for _, b := range fn.Blocks {
		for _, x := range b.Instrs {
			c, ok := x.(ssa.CallInstruction)
			if !ok || c.Common().StaticCallee() == nil {
				continue
			}
			full := c.Common().StaticCallee().String()
			for _, n := range names {
				if full == n {
					out = append(out, x)
				}
			}
		}
	}
	return out
}

// contentRead: the access reads what the guarded state holds (a map element, a range over it, a scalar cell) - not
// merely the map or slice header on the way to an update
func contentRead(a access) bool {
	if a.write {
		return false
	}
	switch x := a.ins.(type) {
	case *ssa.Lookup, *ssa.Range:
		return true
	case *ssa.UnOp:
		_, basic := underlying(x.Type()).(*types.Basic)
		return basic
	}
	return false
}

// decidesBranch: a branch condition is computed from the value the instruction produced
func decidesBranch(ins ssa.Instruction) *ssa.If {
	v, ok := ins.(ssa.Value)
	if !ok {
		return nil
	}
	seen := map[ssa.Value]bool{v: true}
	work := []ssa.Value{v}
	for len(work) > 0 && len(seen) < 64 {
		cur := work[0]
		work = work[1:]
		refs := cur.Referrers()
		if refs == nil {
			continue
		}
		for _, r := range *refs {
			switch x := r.(type) {
			case *ssa.If:
				return x
			case *ssa.Extract, *ssa.BinOp, *ssa.Phi, *ssa.ChangeType, *ssa.Convert:
				if xv := x.(ssa.Value); !seen[xv] {
					seen[xv] = true
					work = append(work, xv)
				}
			case *ssa.UnOp:
				if x.Op != token.MUL && !seen[x] {
					seen[x] = true
					work = append(work, x)
				}
			}
		}
	}
	return nil
}

// checkThenAct: a write to lock-guarded state, made in one critical section, that was decided by a read of the same
// state made in an earlier critical section of the same function, with no fresh read in the section of the write.
// Between the two sections another goroutine can change what was read: the update is lost or doubled.
func checkThenAct(e *Engine, acc []access) []string {
	var bad []string
	for _, w := range acc {
		if !w.write {
			continue
		}
		var lc ssa.Instruction
		for _, l := range syncCalls(w.fn, "(*sync.Mutex).Lock", "(*sync.RWMutex).Lock") {
			if instrDominates(l, w.ins) && (lc == nil || instrDominates(lc, l)) {
				lc = l
			}
		}
		if lc == nil {
			continue
		}
		fresh := false
		for _, r := range acc {
			if r.fn == w.fn && contentRead(r) && instrDominates(lc, r.ins) && (instrDominates(r.ins, w.ins) || r.ins.Block() == w.ins.Block()) {
				fresh = true
			}
		}
		if fresh {
			continue
		}
		unlocks := syncCalls(w.fn, "(*sync.Mutex).Unlock", "(*sync.RWMutex).Unlock", "(*sync.RWMutex).RUnlock")
		for _, r := range acc {
			if r.fn != w.fn || !contentRead(r) || !instrDominates(r.ins, lc) {
				continue
			}
			released := false
			for _, u := range unlocks {
				if instrDominates(r.ins, u) && instrDominates(u, lc) {
					released = true
				}
			}
			br := decidesBranch(r.ins)
			if released && br != nil && (instrDominates(br, lc) || br.Block().Dominates(lc.Block())) {
				bad = append(bad, fmt.Sprintf("%s in %s (%s) is decided by the %s at %s made before the lock was released and taken again, and nothing is read again under the lock", w.what, fnKey(w.fn), e.posString(w.ins.Pos()), r.what, e.posString(r.ins.Pos())))
			}
		}
	}
	sort.Strings(bad)
	return bad
}

func runC10(e *Engine, tier Tier) *PropRun {
	computeOnceInit(e)
	syn := &FnResult{Fn: "package-level state"}
	nvars, nImm, nSync, nGuard := 0, 0, 0, 0
	var pkgs []string
	for p := range e.SPkgs {
		if strings.HasPrefix(p, modPath+"/pkg/") && !strings.Contains(p, "/testing") && !strings.HasSuffix(p, "/cbinding") {
			pkgs = append(pkgs, p)
		}
	}
	sort.Strings(pkgs)
	// index: global -> instructions that mention it
	uses := map[*ssa.Global][]ssa.Instruction{}
	for _, fn := range e.allFns {
		if fn.Blocks == nil || !e.inRepo(fn) {
			continue
		}
		for _, b := range fn.Blocks {
			for _, ins := range b.Instrs {
				for _, op := range ins.Operands(nil) {
					if g, ok := (*op).(*ssa.Global); ok {
						uses[g] = append(uses[g], ins)
					}
				}
			}
		}
	}
	for _, pp := range pkgs {
		sp := e.SPkgs[pp]
		var names []string
		for n := range sp.Members {
			names = append(names, n)
		}
		sort.Strings(names)
		for _, n := range names {
			g, ok := sp.Members[n].(*ssa.Global)
			if !ok || strings.HasPrefix(n, "init$") {
				continue
			}
			nvars++
			elem := g.Type().(*types.Pointer).Elem()
			short := strings.TrimPrefix(pp, modPath+"/pkg/") + "." + n
			if isSyncType(elem) {
				nSync++
				syn.Obls = append(syn.Obls, &Obligation{Name: "own:" + short, Kind: "own", Fn: short, Answer: "unsat", Solver: "ownership analysis", Desc: "synchronisation object (" + elem.String() + ")"})
				continue
			}
			var acc []access
			for _, ins := range uses[g] {
				if isInitFn(ins.Parent()) {
					continue
				}
				switch x := ins.(type) {
				case *ssa.Store:
					if x.Addr == g {
						acc = append(acc, access{x.Parent(), x, true, "store to the variable"})
					}
				case *ssa.UnOp:
					if x.Op == token.MUL && x.X == g {
						classifyUses(x, 0, &acc, "value")
					}
				case *ssa.FieldAddr:
					if x.X == g {
						st := underlying(elem).(*types.Struct)
						if !isSyncType(st.Field(x.Field).Type()) {
							classifyFieldAddr(x, 0, &acc, st.Field(x.Field).Name())
						}
					}
				case *ssa.IndexAddr:
					if x.X == g {
						classifyUses(x, 0, &acc, "[]")
					}
				}
			}
			written := false
			for _, a := range acc {
				if a.write {
					written = true
				}
			}
			onceOnly := false
			if !written {
				// written only inside once-initialisers? then reads must follow a once.Do in their function
				for _, ins := range uses[g] {
					if onceInit[ins.Parent()] {
						onceOnly = true
					}
				}
			}
			if onceOnly {
				var bad []string
				for _, a := range acc {
					if !onceDominates(a.ins) {
						bad = append(bad, fmt.Sprintf("%s in %s (%s) is not preceded by once.Do", a.what, fnKey(a.fn), e.posString(a.ins.Pos())))
					}
				}
				if len(bad) == 0 {
					nImm++
					syn.Obls = append(syn.Obls, &Obligation{Name: "own:" + short, Kind: "own", Fn: short, Answer: "unsat", Solver: "ownership analysis", Desc: "initialised once through sync.Once; every read is preceded by the once.Do call in its function"})
				} else {
					syn.Obls = append(syn.Obls, &Obligation{Name: "own:" + short, Kind: "own", Fn: short, Pos: bad[0], Answer: "sat", Solver: "ownership analysis", Desc: strings.Join(bad, "; ")})
				}
				continue
			}
			if !written {
				nImm++
				syn.Obls = append(syn.Obls, &Obligation{Name: "own:" + short, Kind: "own", Fn: short, Answer: "unsat", Solver: "ownership analysis", Desc: "immutable after initialisation (no store, map update, element store or append outside init)"})
				continue
			}
			// mutable: every access (read of the mutable parts and write) must be dominated by a lock acquisition
			// per field: a part of the object that is never written after initialisation may be read without the lock
			fieldOf := func(what string) string {
				f := what
				if i := strings.Index(f, " "); i >= 0 {
					f = f[:i]
				}
				return strings.TrimRight(f, "[]")
			}
			writtenField := map[string]bool{}
			for _, a := range acc {
				if a.write {
					writtenField[fieldOf(a.what)] = true
				}
			}
			mayChange := func(f string) bool {
				for w := range writtenField {
					if w == f || strings.HasPrefix(f, w+".") || strings.HasPrefix(w, f+".") || !strings.Contains(w, ".") {
						return true
					}
				}
				return false
			}
			var bad []string
			for _, a := range acc {
				if !a.write && !mayChange(fieldOf(a.what)) {
					continue
				}
				if !lockDominates(a.ins, a.write) {
					bad = append(bad, fmt.Sprintf("%s in %s (%s)", a.what, fnKey(a.fn), e.posString(a.ins.Pos())))
				}
			}
			if len(bad) == 0 {
				nGuard++
				syn.Obls = append(syn.Obls, &Obligation{Name: "own:" + short, Kind: "own", Fn: short, Answer: "unsat", Solver: "ownership analysis", Desc: "every access is dominated by a Lock/RLock in its function"})
				// atomicity of updates: no write decided by a read from an earlier critical section
				if cta := checkThenAct(e, acc); len(cta) == 0 {
					syn.Obls = append(syn.Obls, &Obligation{Name: "atomic:" + short, Kind: "own", Fn: short, Answer: "unsat", Solver: "ownership analysis", Desc: "every update is made in the critical section that read what it depends on"})
				} else {
					syn.Obls = append(syn.Obls, &Obligation{Name: "atomic:" + short, Kind: "own", Fn: short, Pos: cta[0], Answer: "sat", Solver: "ownership analysis", Desc: "check-then-act across critical sections: " + strings.Join(cta, "; ")})
				}
				continue
			}
			sort.Strings(bad)
			if len(bad) > 6 {
				bad = append(bad[:6], fmt.Sprintf("... and %d more", len(bad)-6))
			}
			syn.Obls = append(syn.Obls, &Obligation{Name: "own:" + short, Kind: "own", Fn: short, Pos: bad[0], Answer: "sat", Solver: "ownership analysis", Desc: "unsynchronised access to mutable package-level state: " + strings.Join(bad, "; ")})
		}
	}
	// rely/guarantee on the metrics cells
	opts := &VCOpts{InlineDepth: 1, NoContents: true, RG: true}
	fns := e.sourceFns(func(fn *ssa.Function, file string) bool {
		return fn.Parent() == nil && strings.HasPrefix(file, "pkg/metrics/")
	})
	rs := e.verifyAll(fns, opts, nil)
	rs = append(rs, syn)
	return &PropRun{
		Results: rs, FUC: fucList(rs),
		Claim: func(o *Obligation) bool {
			if o.Kind == "rg" && o.Fn == "metrics.Reset" {
				return false // administrative re-initialisation: statistics are exact between resets (documented in not_covered)
			}
			return o.Kind == "own" || o.Kind == "rg"
		},
		Explanation: fmt.Sprintf("(1) Ownership discipline: one obligation own:<var> for each of the %d package-level variables of the library packages (enumerated from go/ssa): it is a sync/atomic object (%d), or immutable after initialisation - no store, map update, element store or append outside init, followed through loads, field and index addressing (%d) -, or every access is dominated by a Lock/RLock (%d); anything else fails with the offending sites. Shared state handed to a function of the repository as an argument or receiver is followed into that function; a part of a guarded object that is never written after initialisation may be read without the lock. (1b) Atomicity of guarded updates (atomic:<var>, one per lock-guarded variable): no write made in one critical section is decided by a read of the same state made in an earlier critical section of the same function (lock released and taken again in between) unless the state is read again under the lock - the check-then-act pattern that loses or doubles an update under a particular interleaving. (2) Exact metrics under interference: rely/guarantee obligations rg:<cell> at every sync/atomic Store/Add/Swap/CompareAndSwap of a cell with an rg specification in pkg/metrics/contracts_verif.go: the update must satisfy the cell's guarantee for every value the cell may hold at that instant, i.e. every value rely-reachable from what this thread last loaded (for a successful CompareAndSwap: exactly the expected value).", nvars, nSync, nImm, nGuard),
		NotCovered:  []string{"the Go memory model / all schedules (a sequential VC generator cannot quantify over them; the race detector is a different family)", "objects the caller shares between goroutines against the documented contract", "returns-what-it-returns-alone is the consequence of C08 + C09 + ownership, argued not proved", "lock/unlock pairing beyond dominance by an acquisition", "cmd/ packages", "metrics.Reset (re-initialises the cells; the totals are exact between two resets)"},
		Assumptions: []string{"sync.Pool, sync.Mutex, sync/atomic behave as documented", "a value loaded from an immutable table is not written through an alias obtained elsewhere"},
		Level:       "other",
		Extra:       map[string]any{"package_level_variables": nvars, "sync_objects": nSync, "immutable": nImm, "lock_guarded": nGuard},
	}
}
