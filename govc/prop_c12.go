package main

import (
	"fmt"
	"strings"

	"golang.org/x/tools/go/ssa"
)

func init() {
	register(&propDriver{ID: "C12", Title: "Recovery parsing terminates, agrees with strict parsing, loses no good statement", Run: runC12})
}

func runC12(e *Engine, tier Tier) *PropRun {
	opts := &VCOpts{InlineDepth: 1, NoContents: true}
	want := map[string]bool{
		"sql/parser.(*Parser).advance": true, "sql/parser.(*Parser).expectedError": true, "sql/parser.(*Parser).parseWithStatement": true,
		"sql/parser.(*Parser).parseStatement": true, "sql/parser.(*Parser).synchronize": true, "sql/parser.(*Parser).parseWithRecovery": true,
		"sql/parser.(*Parser).ParseWithRecovery": true, "sql/parser.(*Parser).ParseWithRecoveryFromModelTokens": true,
		"sql/parser.(*Parser).isStatementStartingKeyword": true, "sql/parser.(*Parser).isType": true,
	}
	fns := e.sourceFns(func(fn *ssa.Function, file string) bool { return want[fnKey(fn)] })
	// "loses no good statement": an iteration of synchronize that goes round again has not passed over a statement
	// separator - at every call of advance inside the skipping loop the token under the cursor is not a semicolon
	// (the call that consumes the separator is followed by the return and is outside the loop).
	opts.CheckTags = map[string]bool{"": true, "C12": true}
	opts.OnCall = func(fr *Frame, ins ssa.CallInstruction, callee *ssa.Function, args []Val) {
		root := fr.root()
		if callee == nil || fr != root || fnKey(root.fn) != "sql/parser.(*Parser).synchronize" || fnKey(callee) != "sql/parser.(*Parser).advance" {
			return
		}
		if fr.loopOf(ins.Block()) == nil {
			return
		}
		env := newSpecEnv(fr, root.fn)
		env.st, env.old = fr.cur.st, root.entry
		env.bindParams(root.fn, root.params)
		c, err := parseClause("recv.currentToken.Type != models.TokenTypeSemicolon")
		if err != nil {
			return
		}
		t, err := env.evalBool(c.Expr)
		if err != nil {
			fr.q.note("C12 separator clause: " + err.Error())
			t = "false"
		}
		k := fr.callOrdinal("sep:" + fnKey(callee))
		fr.q.addObligation(fr, "schema", fmt.Sprintf("passes_over_no_separator@advance#%d", k), ins.Pos(), fr.cur.reach, t)
	}
	rs := e.verifyAll(fns, opts, nil)
	return &PropRun{
		Results: rs, FUC: fucList(rs),
		Claim: func(o *Obligation) bool {
			return o.Kind == "schema" || o.Kind == "dec" || o.Kind == "post" || o.Kind == "inv-init" || o.Kind == "inv-pres" || (o.Kind == "pre" && strings.Contains(o.Fn, "ecover"))
		},
		Explanation: "Termination of recovery parsing for every token sequence (with or without an end marker): the main loop of parseWithRecovery proves the variant len(tokens) - currentPos from the contracts 'advance moves the cursor by exactly one', 'a statement that parsed successfully consumed at least one token' (parseStatement, parseWithStatement), the forced advance when a failed statement consumed nothing, and synchronize's own variant and monotonicity. No good statement is skipped by resynchronisation: at every call of advance inside the skipping loop of synchronize (an iteration that goes round again) the token under the cursor is not a semicolon, from isType's functional contract - so the cursor stops right after the first separator and the next statement is parsed from its first token. The per-call state contracts (positions cleared, depth/ctx/configuration unchanged on every exit) are proved for the recovery entry points as well.",
		NotCovered:  []string{"errors reported exactly when strict parsing fails (needs the shared statement-level spec function; not built)", "per-segment equality with strict parsing (needs locality of parseStatement, i.e. the grammar)", "each error naming a token of its own statement beyond TokenIdx = position at statement start (by construction, not a proved postcondition)", "termination of the individual parse functions (C02 recursion measure; loops inside them carry no variants yet)"},
		Assumptions: []string{"the parse functions called by parseStatement terminate (C02) and satisfy the default parser contract (C08)"},
	}
}
