package main

import (
	"strings"

	"golang.org/x/tools/go/ssa"
)

func init() {
	register(&propDriver{ID: "C12", Title: "Recovery parsing terminates, agrees with strict parsing, loses no good statement", Run: runC12})
}

func runC12(e *Engine, tier Tier) *PropRun {
	opts := &VCOpts{InlineDepth: 1, NoContents: true}
	want := map[string]bool{
		"sql/parser.(*Parser).advance": true, "sql/parser.(*Parser).expectedError": true, "sql/parser.(*Parser).parseWithStatement": true,
		"sql/parser.(*Parser).parseStatement": true, "sql/parser.(*Parser).synchronize": true, "sql/parser.(*Parser).parseWithRecovery": true,
		"sql/parser.(*Parser).ParseWithRecovery": true, "sql/parser.(*Parser).ParseWithRecoveryFromModelTokens": true,
		"sql/parser.(*Parser).isStatementStartingKeyword": true, "sql/parser.(*Parser).isType": true,
	}
	fns := e.sourceFns(func(fn *ssa.Function, file string) bool { return want[fnKey(fn)] })
	rs := e.verifyAll(fns, opts, nil)
	return &PropRun{
		Results: rs, FUC: fucList(rs),
		Claim: func(o *Obligation) bool {
			return o.Kind == "dec" || o.Kind == "post" || o.Kind == "inv-init" || o.Kind == "inv-pres" || (o.Kind == "pre" && strings.Contains(o.Fn, "ecover"))
		},
		Explanation: "Termination of recovery parsing for every token sequence (with or without an end marker): the main loop of parseWithRecovery proves the variant len(tokens) - currentPos from the contracts 'advance moves the cursor by exactly one', 'a statement that parsed successfully consumed at least one token' (parseStatement, parseWithStatement), the forced advance when a failed statement consumed nothing, and synchronize's own variant and monotonicity. The per-call state contracts (positions cleared, depth/ctx/configuration unchanged on every exit) are proved for the recovery entry points as well.",
		NotCovered:  []string{"errors reported exactly when strict parsing fails (needs the shared statement-level spec function; not built)", "per-segment equality with strict parsing (needs locality of parseStatement, i.e. the grammar)", "each error naming a token of its own statement beyond TokenIdx = position at statement start (by construction, not a proved postcondition)", "termination of the individual parse functions (C02 recursion measure; loops inside them carry no variants yet)"},
		Assumptions: []string{"the parse functions called by parseStatement terminate (C02) and satisfy the default parser contract (C08)"},
	}
}
