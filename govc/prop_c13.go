package main

import (
	"go/types"
	"strings"

	"golang.org/x/tools/go/ssa"
)

func init() {
	register(&propDriver{ID: "C13", Title: "Every failure is a structured, classifiable, reproducible error", Run: func(e *Engine, t Tier) *PropRun { return runAttr(e, t, "C13") }})
	register(&propDriver{ID: "C11", Title: "Cancellation is honoured promptly, reported as such, and leaves no residue", Run: func(e *Engine, t Tier) *PropRun { return runAttr(e, t, "C11") }})
}

func returnsError(fn *ssa.Function) bool {
	rs := fn.Signature.Results()
	for i := 0; i < rs.Len(); i++ {
		if isErrorType(rs.At(i).Type()) {
			return true
		}
	}
	return false
}

func runAttr(e *Engine, tier Tier, tag string) *PropRun {
	a := newAttrs(e)
	opts := &VCOpts{InlineDepth: 1, NoContents: true, CheckTags: map[string]bool{tag: true}}
	a.install(opts)
	// package-level sentinel errors (errors.New in an initialiser) are plain: unstructured, not context errors
	e.globalFactHook = func(fr *Frame, g *ssa.Global, v Val) {
		if len(v.C) == 2 && isErrorType(g.Type().(*types.Pointer).Elem()) {
			a.decl(fr.q)
			fr.q.assume(fr.cur.reach, sAnd(sNot(app("g_causectx", v)), sNot(app("g_isctx", v))))
		}
	}
	fns := e.sourceFns(func(fn *ssa.Function, file string) bool {
		if fn.Parent() != nil || !returnsError(fn) {
			return false
		}
		if strings.Contains(file, "/testing/") {
			return false
		}
		return strings.HasPrefix(file, "pkg/sql/parser/") || strings.HasPrefix(file, "pkg/sql/tokenizer/") || strings.HasPrefix(file, "pkg/gosqlx/")
	})
	e.prepareExempt(tag, fns, opts)
	rs := e.verifyAll(fns, opts, func(fr *Frame, q *Query) { a.constFacts(q) })
	run := &PropRun{Results: rs, FUC: fucList(rs), Claim: func(o *Obligation) bool { return o.Kind == "post" || o.Kind == "pre" }}
	run.Assumptions = []string{
		"errors.As finds a *errors.Error exactly when the value is one or wraps one with %w / Unwrap (ghost attribute structured)",
		"fmt.Errorf with %w preserves the wrapped error's attributes; without %w the result is unstructured and matches no context error",
		"an error or string formatted with %v/%s/Error() carries the cancellation cause into the message (ghost taint cause_ctx)",
		"ctx.Err() != nil is the only origin of cancellation causes",
		"closed world for message text: strings read from tokens, AST fields, tables, literals and byte conversions carry no cancellation cause; only Error() results, fmt formatting, concatenation and strings passed between functions can",
		"package-level sentinel errors are not context errors",
		"builders of pkg/errors return a non-nil *Error whose code family is the one of the constant they pass to NewError (read from their SSA)",
	}
	if tag == "C13" {
		run.Explanation = "Ghost attributes on error values: structured (errors.As reaches a *errors.Error), is_ctx, cause_ctx and the code family fam. The constructors' assumed contracts are the transfer rules (builders, NewError/WrapError, WithCause/WithContext/WithHint, fmt.Errorf with and without %w, errors.New, ctx.Err()). Every error-returning function of tokenizer, parser and gosqlx proves at each return: err != nil => structured(err) or is_ctx(err); tokenizer functions additionally prove that a structured error has a tokenizer (E1xxx) code. Callers use only the callee's contract."
		run.NotCovered = []string{"message non-emptiness", "location inside the input (C05)", "run-to-run reproducibility beyond the absence of clock/map-order reads (not built)", "exact code per failure class"}
	} else {
		run.Explanation = "Every error-returning function of tokenizer, parser and gosqlx proves at each return: an error that exists because ctx.Err() was non-nil (ghost taint cause_ctx, propagated through %v/%s formatting, Error() strings, string concatenation and builder descriptions) still matches the context error under errors.Is (is_ctx, preserved only by %w / Cause chains). ctx.Err() may fire independently at every poll, so all cancellation moments are covered at once."
		run.NotCovered = []string{"promptness (bounded further work)", "no tree returned on cancellation", "equality with the context-free call when the context never fires (C07 spec loop)", "residue (C08 contracts: ctx cleared, depth restored)"}
	}
	return run
}
