package main

// C14 — schema children_cover(T.f): for every AST node type T and every field f that can hold a node,
// T.Children() returns (all nodes of) f whenever f is non-empty, on every path (DESIGN 4.14).
//
// The set view of the result slice is a ghost attribute computed along the symbolic execution:
// cov(v)[k] is an SMT condition under which slice value v contains every node of receiver field k.
// Path sensitivity comes from the block/edge reach conditions of the VC generator; the final
// obligations (nonempty(f) => cov(result)[f]) are discharged by the SMT solvers.

import (
	"fmt"
	"go/token"
	"go/types"
	"sort"

	"golang.org/x/tools/go/ssa"
)

func init() {
	register(&propDriver{ID: "C14", Title: "Tree traversal reaches every node of every tree", Run: runC14})
}

type nodeField struct {
	Path   string // dotted field path from the receiver struct
	Kind   string // "ref" (interface or pointer), "slice" (slice of nodes), "valslice" (slice of node structs by value), "val" (node struct by value)
	Type   types.Type
	Index  []int
	Guards []string // pointer-typed prefixes that must be non-nil for the field to exist
}

// nodeFields enumerates the fields of struct type t that can hold a node.
func nodeFields(e *Engine, t types.Type, nodeIface *types.Interface, prefix string, idx []int, depth int, out *[]nodeField) {
	st, ok := underlying(t).(*types.Struct)
	if !ok || depth > 4 {
		return
	}
	isNode := func(x types.Type) bool {
		if !(types.Implements(x, nodeIface) || types.Implements(types.NewPointer(x), nodeIface)) {
			return false
		}
		return !isLeafName(e, x, nodeIface, depth)
	}
	for i := 0; i < st.NumFields(); i++ {
		f := st.Field(i)
		ft := f.Type()
		p := joinPath(prefix, f.Name())
		ix := append(append([]int{}, idx...), i)
		switch u := underlying(ft).(type) {
		case *types.Interface:
			if types.Implements(ft, nodeIface) {
				*out = append(*out, nodeField{Path: p, Kind: "ref", Type: ft, Index: ix})
			}
		case *types.Pointer:
			if types.Implements(ft, nodeIface) {
				if !isLeafName(e, u.Elem(), nodeIface, depth) {
					*out = append(*out, nodeField{Path: p, Kind: "ref", Type: ft, Index: ix})
				}
			} else if _, ok := underlying(u.Elem()).(*types.Struct); ok && !isBasicLike(u.Elem()) {
				// pointer to a non-node struct: its node-holding fields are reachable only through it (not modelled): report as a plain ref-less container
				var sub []nodeField
				nodeFields(e, u.Elem(), nodeIface, p, ix, depth+1, &sub)
				for _, sf := range sub {
					sf.Guards = append([]string{p}, sf.Guards...)
					*out = append(*out, sf)
				}
			}
		case *types.Slice:
			et := u.Elem()
			switch eu := underlying(et).(type) {
			case *types.Interface:
				if types.Implements(et, nodeIface) {
					*out = append(*out, nodeField{Path: p, Kind: "slice", Type: ft, Index: ix})
				}
			case *types.Pointer:
				if types.Implements(et, nodeIface) {
					*out = append(*out, nodeField{Path: p, Kind: "slice", Type: ft, Index: ix})
				}
			case *types.Struct:
				if isNode(et) {
					*out = append(*out, nodeField{Path: p, Kind: "valslice", Type: ft, Index: ix})
				} else {
					var sub []nodeField
					nodeFields(e, et, nodeIface, "", nil, depth+1, &sub)
					if len(sub) > 0 {
						*out = append(*out, nodeField{Path: p, Kind: "structslice", Type: ft, Index: ix})
					}
				}
				_ = eu
			case *types.Slice:
				// [][]Expression
				if ee, ok := underlying(eu.Elem()).(*types.Interface); ok && types.Implements(eu.Elem(), nodeIface) {
					_ = ee
					*out = append(*out, nodeField{Path: p, Kind: "slice2", Type: ft, Index: ix})
				}
			}
		case *types.Struct:
			if isNode(ft) {
				*out = append(*out, nodeField{Path: p, Kind: "val", Type: ft, Index: ix})
			} else {
				nodeFields(e, ft, nodeIface, p, ix, depth+1, out)
			}
		}
	}
}

func isBasicLike(t types.Type) bool { return false }

var leafNameCache = map[string]bool{}

// isLeafName: a struct type that implements Node but is neither a statement nor an expression and holds no
// node itself (a bare name such as Ident or ObjectName). The property speaks of statement, clause and expression
// nodes; bare names are not traversal targets.
func isLeafName(e *Engine, t types.Type, nodeIface *types.Interface, depth int) bool {
	k := typeKey(t)
	if v, ok := leafNameCache[k]; ok {
		return v
	}
	leafNameCache[k] = false
	if _, ok := underlying(t).(*types.Struct); !ok {
		return false
	}
	astPkg := e.SPkgs[modPath+"/pkg/sql/ast"].Pkg
	for _, in := range []string{"Expression", "Statement"} {
		if o := astPkg.Scope().Lookup(in); o != nil {
			it := o.Type().Underlying().(*types.Interface)
			if types.Implements(t, it) || types.Implements(types.NewPointer(t), it) {
				return false
			}
		}
	}
	var sub []nodeField
	nodeFields(e, t, nodeIface, "", nil, depth+1, &sub)
	r := len(sub) == 0
	leafNameCache[k] = r
	return r
}

// ---------- coverage analysis over an executed frame ----------

type covMap map[string]string // field path -> SMT condition under which all its nodes are in the slice

type coverAnalysis struct {
	e            *Engine
	fr           *Frame
	recv         ssa.Value // the alloc holding the by-value receiver, or the pointer receiver parameter
	cov          map[ssa.Value]covMap
	foreign      []string
	summaries    map[*ssa.Function]bool
	paramAsField *ssa.Parameter
}

// fieldPathOf: if v is (a load of) a field of the receiver, its dotted path.
func (ca *coverAnalysis) fieldPathOf(v ssa.Value) (string, bool) {
	if ca.paramAsField != nil && v == ca.paramAsField {
		return "$param", true
	}
	switch x := v.(type) {
	case *ssa.UnOp:
		if x.Op == token.MUL {
			return ca.addrPath(x.X)
		}
	case *ssa.FieldAddr:
		// &recv.f : the node is the by-value field itself
		return ca.addrPath(x)
	case *ssa.Field:
		// field of a by-value struct loaded from the receiver
		if p, ok := ca.fieldPathOf(x.X); ok {
			st := underlying(x.X.Type()).(*types.Struct)
			return joinPath(p, st.Field(x.Field).Name()), true
		}
		if x.X == ca.recv {
			st := underlying(x.X.Type()).(*types.Struct)
			return st.Field(x.Field).Name(), true
		}
	case *ssa.ChangeInterface:
		return ca.fieldPathOf(x.X)
	case *ssa.MakeInterface:
		return ca.fieldPathOf(x.X)
	case *ssa.ChangeType:
		return ca.fieldPathOf(x.X)
	}
	return "", false
}

func (ca *coverAnalysis) addrPath(a ssa.Value) (string, bool) {
	switch x := a.(type) {
	case *ssa.FieldAddr:
		st := underlying(x.X.Type().(*types.Pointer).Elem()).(*types.Struct)
		name := st.Field(x.Field).Name()
		if x.X == ca.recv {
			return name, true
		}
		if p, ok := ca.addrPath(x.X); ok {
			return joinPath(p, name), true
		}
		// through a pointer-typed field: (*recv.p).name
		if ld, ok := x.X.(*ssa.UnOp); ok && ld.Op == token.MUL {
			if p, ok := ca.addrPath(ld.X); ok {
				return joinPath(p, name), true
			}
		}
	}
	return "", false
}

// elemOf: if v is element i of a receiver slice field ranged by loop li (value, or address of a per-iteration copy), the field path.
func (ca *coverAnalysis) elemOf(v ssa.Value, li *loopInfo) (string, bool) {
	switch x := v.(type) {
	case *ssa.MakeInterface:
		return ca.elemOf(x.X, li)
	case *ssa.ChangeInterface:
		return ca.elemOf(x.X, li)
	case *ssa.UnOp:
		if x.Op == token.MUL {
			if ia, ok := x.X.(*ssa.IndexAddr); ok {
				return ca.fieldPathOf(ia.X)
			}
		}
	case *ssa.Alloc:
		// address of a copy: the alloc must be made inside the loop (fresh per iteration) and initialised from the element
		if li == nil || !li.blocks[x.Block()] {
			return "", false
		}
		refs := x.Referrers()
		if refs == nil {
			return "", false
		}
		for _, r := range *refs {
			if st, ok := r.(*ssa.Store); ok && st.Addr == x {
				if p, ok := ca.elemOf(st.Val, li); ok {
					return p, true
				}
			}
		}
	case *ssa.IndexAddr:
		// &xs[i] directly
		return ca.fieldPathOf(x.X)
	}
	return "", false
}

func orCond(a, b string) string { return sOr(a, b) }

func (ca *coverAnalysis) get(v ssa.Value) covMap {
	if m, ok := ca.cov[v]; ok {
		return m
	}
	// the field itself (e.g. `return c.Columns` for a []Node field)
	if isNodeSlice(v.Type()) {
		if f, ok := ca.fieldPathOf(v); ok {
			return covMap{f: "true"}
		}
	}
	return covMap{}
}

func mergeCov(a, b covMap) covMap {
	out := covMap{}
	for k, v := range a {
		out[k] = v
	}
	for k, v := range b {
		out[k] = orCond(out[k], v)
	}
	return out
}

// single element packed for a variadic append: new [1]T; store; slice
func packedElems(v ssa.Value) []ssa.Value {
	sl, ok := v.(*ssa.Slice)
	if !ok {
		return nil
	}
	al, ok := sl.X.(*ssa.Alloc)
	if !ok {
		return nil
	}
	var out []ssa.Value
	if refs := al.Referrers(); refs != nil {
		for _, r := range *refs {
			if ia, ok := r.(*ssa.IndexAddr); ok {
				if irefs := ia.Referrers(); irefs != nil {
					for _, rr := range *irefs {
						if st, ok := rr.(*ssa.Store); ok && st.Addr == ia {
							out = append(out, st.Val)
						}
					}
				}
			}
		}
	}
	return out
}

func (ca *coverAnalysis) run() {
	fr := ca.fr
	order := fr.topoOrder()
	reachOf := func(b *ssa.BasicBlock) string {
		if r, ok := fr.blockReach[b]; ok {
			return r
		}
		return "false"
	}
	for _, b := range order {
		li := fr.loops[b]
		for _, ins := range b.Instrs {
			switch x := ins.(type) {
			case *ssa.Phi:
				if !isNodeSlice(x.Type()) {
					continue
				}
				m := covMap{}
				if li != nil {
					// loop header: what the entry value covers stays covered (append-only accumulators); plus the
					// range-append template for the ranged field
					for i, p := range b.Preds {
						if fr.backEdge[[2]int{p.Index, b.Index}] {
							if f, ok := ca.rangeAppendTemplate(x, x.Edges[i], li); ok {
								m[f] = "true"
							} else if !ca.appendOnly(x, x.Edges[i]) {
								m = covMap{}
								break
							}
							continue
						}
						for k, c := range ca.get(x.Edges[i]) {
							m[k] = orCond(m[k], c)
						}
					}
				} else {
					conds, _, idx := fr.predFlows(b, false)
					for k, pi := range idx {
						for f, c := range ca.get(x.Edges[pi]) {
							m[f] = orCond(m[f], sAnd(conds[k], c))
						}
					}
				}
				ca.cov[x] = m
			case *ssa.MakeSlice:
				if isNodeSlice(x.Type()) {
					ca.cov[x] = covMap{}
					if f, ok := ca.storeTemplate(x); ok {
						ca.cov[x] = covMap{f: "true"}
					}
				}
			case *ssa.Slice:
				if isNodeSlice(x.Type()) {
					if al, ok := x.X.(*ssa.Alloc); ok && x.Low == nil && x.High == nil && al.Comment == "slicelit" {
						// composite literal []Node{a, b, ...}
						m := covMap{}
						for _, el := range packedElems(x) {
							if f, ok := ca.fieldPathOf(el); ok {
								m[f] = "true"
							} else if c, isC := el.(*ssa.Const); isC && c.Value == nil {
								// nil element
							} else {
								ca.foreign = append(ca.foreign, fmt.Sprintf("%s: literal element %s is not a field of the receiver", fr.q.eng.posString(x.Pos()), describe(el)))
							}
						}
						ca.cov[x] = m
					}
					if _, ok := x.X.(*ssa.Alloc); !ok {
						ca.cov[x] = ca.get(x.X) // re-slicing keeps (we only use [:0]-free code here conservatively)
						if x.High != nil || x.Low != nil {
							ca.cov[x] = covMap{}
						}
					}
				}
			case *ssa.Call:
				if !isNodeSlice(x.Type()) {
					continue
				}
				c := x.Common()
				if bi, ok := c.Value.(*ssa.Builtin); ok && bi.Name() == "append" {
					m := mergeCov(ca.get(c.Args[0]), nil)
					if els := packedElems(c.Args[1]); els != nil {
						for _, el := range els {
							if f, ok := ca.fieldPathOf(el); ok {
								m[f] = orCond(m[f], reachOf(b))
							} else if _, ok := ca.elemOf(el, fr.loopOf(b)); ok {
								// element append inside a loop: accounted by the loop template
							} else {
								ca.foreign = append(ca.foreign, fmt.Sprintf("%s: appended value %s is not a field of the receiver", fr.q.eng.posString(x.Pos()), describe(el)))
							}
						}
					} else {
						for f, cnd := range ca.get(c.Args[1]) {
							m[f] = orCond(m[f], sAnd(reachOf(b), cnd))
						}
					}
					ca.cov[x] = m
					continue
				}
				if callee := c.StaticCallee(); callee != nil && len(c.Args) == 1 {
					// helper of shape func(xs []E) []Node: summary computed by analysing the helper with the same rules
					if ca.helperCovers(callee) {
						if f, ok := ca.fieldPathOf(c.Args[0]); ok {
							ca.cov[x] = covMap{f: reachOf(b)}
							continue
						}
						// helper applied to an element of a [][]E field inside a range loop
						if f, ok := ca.elemOf(c.Args[0], fr.loopOf(b)); ok {
							ca.cov[x] = covMap{"elem:" + f: "true"}
							continue
						}
					}
				}
				ca.cov[x] = covMap{}
			}
		}
	}
}

func isNodeSlice(t types.Type) bool {
	sl, ok := underlying(t).(*types.Slice)
	if !ok {
		return false
	}
	if n, ok := sl.Elem().(*types.Named); ok && n.Obj().Name() == "Node" {
		return true
	}
	return false
}

// storeTemplate: mk := make([]Node, len(f)); for i := range f { mk[i] = f[i] (or &copy made in this iteration) }
func (ca *coverAnalysis) storeTemplate(mk *ssa.MakeSlice) (string, bool) {
	ln, ok := mk.Len.(*ssa.Call)
	if !ok {
		return "", false
	}
	bi, ok := ln.Call.Value.(*ssa.Builtin)
	if !ok || bi.Name() != "len" {
		return "", false
	}
	field, ok := ca.fieldPathOf(ln.Call.Args[0])
	if !ok {
		return "", false
	}
	refs := mk.Referrers()
	if refs == nil {
		return "", false
	}
	for _, r := range *refs {
		ia, ok := r.(*ssa.IndexAddr)
		if !ok || ia.X != mk {
			continue
		}
		li := ca.fr.loopOf(ia.Block())
		if li == nil || !ca.rangesWholeSlice(li, field) {
			continue
		}
		// index must be the range index of that loop
		bo, ok := ia.Index.(*ssa.BinOp)
		if !ok || bo.Op != token.ADD {
			continue
		}
		if p, ok := bo.X.(*ssa.Phi); !ok || p.Comment != "rangeindex" || p.Block() != li.header {
			continue
		}
		irefs := ia.Referrers()
		if irefs == nil {
			continue
		}
		for _, rr := range *irefs {
			st, ok := rr.(*ssa.Store)
			if !ok || st.Addr != ia {
				continue
			}
			dom := true
			for _, src := range li.backs {
				if !st.Block().Dominates(src) {
					dom = false
				}
			}
			if !dom {
				continue
			}
			if f, ok := ca.elemOf(st.Val, li); ok && f == field {
				// the element loaded must be element idx of the field
				return field, true
			}
		}
	}
	return "", false
}

// appendOnly: back-edge value derives from the header phi through appends only (so earlier elements stay)
func (ca *coverAnalysis) appendOnly(phi *ssa.Phi, v ssa.Value) bool {
	for d := 0; d < 20; d++ {
		if v == phi {
			return true
		}
		switch x := v.(type) {
		case *ssa.Call:
			if bi, ok := x.Call.Value.(*ssa.Builtin); ok && bi.Name() == "append" {
				v = x.Call.Args[0]
				continue
			}
			return false
		case *ssa.Phi:
			// inner merge: every edge must be append-only
			for _, e := range x.Edges {
				if e != x && !ca.appendOnly(phi, e) {
					return false
				}
			}
			return true
		default:
			return false
		}
	}
	return false
}

// rangeAppendTemplate: the loop ranges over a receiver slice field and, on every iteration, appends element i
// (or the address of a fresh per-iteration copy of it, or helper(element) for [][]E) to the accumulator phi.
func (ca *coverAnalysis) rangeAppendTemplate(phi *ssa.Phi, back ssa.Value, li *loopInfo) (string, bool) {
	call, ok := back.(*ssa.Call)
	if !ok {
		return "", false
	}
	bi, ok := call.Call.Value.(*ssa.Builtin)
	if !ok || bi.Name() != "append" || call.Call.Args[0] != phi {
		return "", false
	}
	// the append must execute on every iteration: its block dominates every back-edge source
	for _, src := range li.backs {
		if !call.Block().Dominates(src) {
			return "", false
		}
	}
	var field string
	if els := packedElems(call.Call.Args[1]); len(els) == 1 {
		f, ok := ca.elemOf(els[0], li)
		if !ok {
			return "", false
		}
		field = f
	} else if hc, ok := call.Call.Args[1].(*ssa.Call); ok && hc.Call.StaticCallee() != nil && len(hc.Call.Args) == 1 && ca.helperCovers(hc.Call.StaticCallee()) {
		// helper(element) for a slice of slices: every node of element i is appended
		f, ok := ca.elemOf(hc.Call.Args[0], li)
		if !ok {
			return "", false
		}
		field = f
	} else {
		return "", false
	}
	// the loop must range over the whole field: header condition idx+1 < len(xs) with idx = phi(-1, idx+1)
	if !ca.rangesWholeSlice(li, field) {
		return "", false
	}
	return field, true
}

func (ca *coverAnalysis) rangesWholeSlice(li *loopInfo, field string) bool {
	h := li.header
	for _, ins := range h.Instrs {
		p, ok := ins.(*ssa.Phi)
		if !ok {
			continue
		}
		if p.Comment != "rangeindex" {
			// the hand-written form `for i := 0; i < len(xs); i++ { ... xs[i] ... }`
			if ca.indexedWholeSlice(li, p, field) {
				return true
			}
			continue
		}
		// entry value -1, back value p+1
		okInit, okStep := false, false
		for i, pr := range h.Preds {
			if ca.fr.backEdge[[2]int{pr.Index, h.Index}] {
				if bo, ok := p.Edges[i].(*ssa.BinOp); ok && bo.Op == token.ADD && bo.X == p {
					if c, ok := bo.Y.(*ssa.Const); ok {
						if n, ok := constInt64(c); ok && n == 1 {
							okStep = true
						}
					}
				}
			} else if c, ok := p.Edges[i].(*ssa.Const); ok {
				if n, ok := constInt64(c); ok && n == -1 {
					okInit = true
				}
			}
		}
		if !okInit || !okStep {
			continue
		}
		// condition: (p+1) < len(xs) where xs is the field
		if iff, ok := h.Instrs[len(h.Instrs)-1].(*ssa.If); ok {
			if cmp, ok := iff.Cond.(*ssa.BinOp); ok && cmp.Op == token.LSS {
				if ln, ok := cmp.Y.(*ssa.Call); ok {
					if bi, ok := ln.Call.Value.(*ssa.Builtin); ok && bi.Name() == "len" {
						if f, ok := ca.fieldPathOf(ln.Call.Args[0]); ok && f == field {
							return true
						}
					}
				}
			}
		}
	}
	return false
}

// indexedWholeSlice: p is a counter that starts at 0, is incremented by 1 on every back edge, the loop runs while
// p < len(field), and every element of the field read in the loop is read at index p
func (ca *coverAnalysis) indexedWholeSlice(li *loopInfo, p *ssa.Phi, field string) bool {
	h := li.header
	okInit, okStep := false, false
	for i, pr := range h.Preds {
		if ca.fr.backEdge[[2]int{pr.Index, h.Index}] {
			bo, ok := p.Edges[i].(*ssa.BinOp)
			if !ok || bo.Op != token.ADD || bo.X != ssa.Value(p) {
				return false
			}
			c, ok := bo.Y.(*ssa.Const)
			if !ok {
				return false
			}
			if n, ok := constInt64(c); !ok || n != 1 {
				return false
			}
			okStep = true
		} else if c, ok := p.Edges[i].(*ssa.Const); ok {
			if n, ok := constInt64(c); ok && n == 0 {
				okInit = true
			}
		} else {
			return false
		}
	}
	if !okInit || !okStep {
		return false
	}
	iff, ok := h.Instrs[len(h.Instrs)-1].(*ssa.If)
	if !ok {
		return false
	}
	cmp, ok := iff.Cond.(*ssa.BinOp)
	if !ok || cmp.Op != token.LSS || cmp.X != ssa.Value(p) {
		return false
	}
	ln, ok := cmp.Y.(*ssa.Call)
	if !ok {
		return false
	}
	if bi, ok := ln.Call.Value.(*ssa.Builtin); !ok || bi.Name() != "len" {
		return false
	}
	if f, ok := ca.fieldPathOf(ln.Call.Args[0]); !ok || f != field {
		return false
	}
	// the loop body must stay inside the loop when the condition holds (true edge into the loop)
	if len(h.Succs) != 2 || !li.blocks[h.Succs[0]] {
		return false
	}
	// every read of an element of the field inside the loop is at index p
	for b := range li.blocks {
		for _, ins := range b.Instrs {
			if ia, ok := ins.(*ssa.IndexAddr); ok {
				if f, ok := ca.fieldPathOf(ia.X); ok && f == field && ia.Index != ssa.Value(p) {
					return false
				}
			}
		}
	}
	return true
}

// helperCovers: a helper func(xs []E) []Node whose result contains every element of xs
// (either the element-wise store loop `nodes[i] = xs[i]` over make([]Node, len(xs)) or a range-append loop).
func (ca *coverAnalysis) helperCovers(fn *ssa.Function) bool {
	if v, ok := ca.summaries[fn]; ok {
		return v
	}
	ca.summaries[fn] = false
	if fn.Blocks == nil || len(fn.Params) != 1 || !isNodeSlice(fn.Signature.Results().At(0).Type()) {
		return false
	}
	e := ca.e
	q := newQuery(e, &VCOpts{})
	hfr := newFrame(q, fn, nil)
	st := &State{v: map[string]string{}}
	arg := hfr.namedVal("harg", fn.Params[0].Type())
	genMuHeld(func() { hfr.run([]Val{arg}, nil, st, "true") })
	sub := &coverAnalysis{e: e, fr: hfr, recv: nil, cov: map[ssa.Value]covMap{}, summaries: ca.summaries}
	// treat the parameter as "the field"
	sub.paramAsField = fn.Params[0]
	ok := false
	// shape 1: nodes := make([]Node, len(xs)); for i := range xs { nodes[i] = xs[i] }; return nodes
	if elementwiseCopy(fn) {
		ok = true
	} else {
		sub.run()
		ok = true
		for _, r := range hfr.rets {
			m := sub.get(r.ins.Results[0])
			if m["$param"] != "true" {
				ok = false
			}
		}
		if len(hfr.rets) == 0 {
			ok = false
		}
	}
	ca.summaries[fn] = ok
	return ok
}

func genMuHeld(f func()) { f() }

// elementwiseCopy recognises: r := make([]Node, len(xs)); for i, x := range xs { r[i] = x }; return r
func elementwiseCopy(fn *ssa.Function) bool {
	var mk *ssa.MakeSlice
	for _, b := range fn.Blocks {
		for _, ins := range b.Instrs {
			if m, ok := ins.(*ssa.MakeSlice); ok && isNodeSlice(m.Type()) {
				if mk != nil {
					return false
				}
				mk = m
			}
		}
	}
	if mk == nil {
		return false
	}
	ln, ok := mk.Len.(*ssa.Call)
	if !ok {
		return false
	}
	if bi, ok := ln.Call.Value.(*ssa.Builtin); !ok || bi.Name() != "len" || ln.Call.Args[0] != fn.Params[0] {
		return false
	}
	// a store r[i] = iface(xs[i]) with the same index value, inside the range loop
	found := false
	for _, b := range fn.Blocks {
		for _, ins := range b.Instrs {
			st, ok := ins.(*ssa.Store)
			if !ok {
				continue
			}
			ia, ok := st.Addr.(*ssa.IndexAddr)
			if !ok || ia.X != mk {
				continue
			}
			v := st.Val
			for {
				if mi, ok := v.(*ssa.MakeInterface); ok {
					v = mi.X
					continue
				}
				if ci, ok := v.(*ssa.ChangeInterface); ok {
					v = ci.X
					continue
				}
				break
			}
			ld, ok := v.(*ssa.UnOp)
			if !ok || ld.Op != token.MUL {
				continue
			}
			src, ok := ld.X.(*ssa.IndexAddr)
			if !ok || src.X != fn.Params[0] || src.Index != ia.Index {
				continue
			}
			if p, ok := src.Index.(*ssa.BinOp); ok && p.Op == token.ADD {
				found = true
			}
		}
	}
	if !found {
		return false
	}
	for _, b := range fn.Blocks {
		if r, ok := b.Instrs[len(b.Instrs)-1].(*ssa.Return); ok {
			if r.Results[0] != mk {
				return false
			}
		}
	}
	return true
}

func runC14(e *Engine, tier Tier) *PropRun {
	astPkg := e.SPkgs[modPath+"/pkg/sql/ast"]
	if astPkg == nil {
		return &PropRun{}
	}
	nodeObj := astPkg.Pkg.Scope().Lookup("Node")
	nodeIface := nodeObj.Type().Underlying().(*types.Interface)
	var rs []*FnResult
	types_, fields := 0, 0
	summaries := map[*ssa.Function]bool{}
	var names []string
	sc := astPkg.Pkg.Scope()
	for _, n := range sc.Names() {
		names = append(names, n)
	}
	sort.Strings(names)
	for _, n := range names {
		tn, ok := sc.Lookup(n).(*types.TypeName)
		if !ok || tn.IsAlias() {
			continue
		}
		t := tn.Type()
		if _, ok := underlying(t).(*types.Struct); !ok {
			continue
		}
		var recvT types.Type
		if types.Implements(t, nodeIface) {
			recvT = t
		} else if types.Implements(types.NewPointer(t), nodeIface) {
			recvT = types.NewPointer(t)
		} else {
			continue
		}
		sel := e.Prog.MethodSets.MethodSet(recvT).Lookup(astPkg.Pkg, "Children")
		if sel == nil {
			continue
		}
		fn := e.Prog.MethodValue(sel)
		if fn == nil || fn.Blocks == nil || fn.Synthetic != "" {
			continue
		}
		var nfs []nodeField
		nodeFields(e, t, nodeIface, "", nil, 0, &nfs)
		types_++
		fields += len(nfs)
		nfs2 := nfs
		opts := &VCOpts{InlineDepth: 0}
		r := e.verifyFn(fn, opts, func(fr *Frame, q *Query) {
			ca := &coverAnalysis{e: e, fr: fr, cov: map[ssa.Value]covMap{}, summaries: summaries}
			// receiver: by-value receivers are spilled into a local alloc named after the parameter
			if len(fn.Params) > 0 {
				ca.recv = fn.Params[0]
				if refs := fn.Params[0].Referrers(); refs != nil {
					for _, rr := range *refs {
						if st, ok := rr.(*ssa.Store); ok && st.Val == fn.Params[0] {
							if al, ok := st.Addr.(*ssa.Alloc); ok {
								ca.recv = al
							}
						}
					}
				}
			}
			ca.run()
			for _, ret := range fr.rets {
				var m covMap
				if len(ret.ins.Results) == 1 {
					m = ca.get(ret.ins.Results[0])
				}
				env := newSpecEnv(fr, fn)
				env.bindParams(fn, fr.params)
				env.st, env.old = fr.entry, fr.entry
				for _, nf := range nfs2 {
					// nonempty(f) evaluated on the receiver at entry (Children does not modify it)
					recvName := fn.Params[0].Name()
					var ne string
					switch nf.Kind {
					case "ref", "ptrcontainer":
						c, err := parseClause(recvName + "." + nf.Path + " != nil")
						if err != nil {
							continue
						}
						ne, err = env.evalBool(c.Expr)
						if err != nil {
							q.note("C14 nonempty: " + err.Error())
							continue
						}
					case "slice", "valslice", "slice2", "structslice":
						c, err := parseClause("len(" + recvName + "." + nf.Path + ") > 0")
						if err != nil {
							continue
						}
						ne, err = env.evalBool(c.Expr)
						if err != nil {
							q.note("C14 nonempty: " + err.Error())
							continue
						}
					case "val":
						ne = "true"
					}
					for _, g := range nf.Guards {
						c, err := parseClause(recvName + "." + g + " != nil")
						if err == nil {
							if gt, err := env.evalBool(c.Expr); err == nil {
								ne = sAnd(gt, ne)
							}
						}
					}
					cv := m[nf.Path]
					if cv == "" {
						cv = "false"
					}
					o := q.addObligation(fr, "schema", fmt.Sprintf("children_cover(%s.%s)", tn.Name(), nf.Path), ret.ins.Pos(), ret.reach, sImp(ne, cv))
					o.Desc = nf.Kind
				}
			}
			for i, f := range ca.foreign {
				q.addObligation(fr, "schema", fmt.Sprintf("children_only_own(%s)#%d", tn.Name(), i), fn.Pos(), "true", "false").Desc = f
			}
		})
		rs = append(rs, r)
	}
	return &PropRun{
		Results: rs, FUC: fucList(rs),
		Claim:       func(o *Obligation) bool { return o.Kind == "schema" },
		Explanation: fmt.Sprintf("Schema children_cover(T.f) for every struct type T of package ast with a Children() method (%d types) and every field f of T that can hold a node (%d fields; enumerated from go/types: interfaces and pointers implementing Node, slices of those, slices of node structs by value, node structs by value, recursively through plain structs): on every path through T.Children(), f non-empty implies the result contains all nodes of f. The set view of the result slice is a ghost attribute threaded through the symbolic execution (append keeps and adds, phi merges under the VC's edge conditions, helpers by verified summary); loops are admitted only through the range-append template (every iteration appends element i, or the address of a copy allocated in that iteration). The converse (only own fields are returned) is children_only_own.", types_, fields),
		NotCovered:  []string{"Walk/Inspect recursion itself (one unfolding: Walk visits node then every element of Children(); trusted by reading the 20-line function)", "trees deeper than the stack allows (C02)", "pointer-to-plain-struct containers are required to be returned or flattened but their inner fields are not followed"},
		Assumptions: []string{"range-append loop template: a loop over the whole slice that appends element i (or the address of a per-iteration copy) on every iteration covers the slice"},
		Extra:       map[string]any{"node_types": types_, "node_holding_fields": fields},
	}
}
