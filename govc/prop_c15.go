package main

// C15 — extracted tables are exactly those written in table positions (DESIGN 4.15, table part).

import (
	"fmt"
	"go/constant"
	"go/token"
	"go/types"
	"sort"
	"strings"

	"golang.org/x/tools/go/ssa"
)

func init() {
	register(&propDriver{ID: "C15", Title: "Extracted tables, columns and functions are exactly those referenced", Run: runC15})
}

type tablePos struct {
	Path string // e.g. From, Joins[].Right, TableName, TargetTable
	Kind string // "name" (string field), "ref" (TableReference by value), "refslice" ([]TableReference), "joinright"
}

// tablePositions: the fields of a statement type in which a table name is written (spec table derived from the
// property statement: FROM lists, joins, INSERT/UPDATE/DELETE/MERGE targets, USING). JoinClause.Left is excluded: for
// joins after the first it is a name the parser synthesises.
func tablePositions(t types.Type) []tablePos {
	st, ok := underlying(t).(*types.Struct)
	if !ok {
		return nil
	}
	var out []tablePos
	isTR := func(x types.Type) bool {
		n, ok := x.(*types.Named)
		return ok && n.Obj().Name() == "TableReference" && n.Obj().Pkg() != nil && strings.HasSuffix(n.Obj().Pkg().Path(), "/pkg/sql/ast")
	}
	for i := 0; i < st.NumFields(); i++ {
		f := st.Field(i)
		switch {
		case f.Name() == "TableName" && isStringT(f.Type()):
			if n, ok := t.(*types.Named); ok && n.Obj().Name() == "SelectStatement" {
				continue // redundant copy of From[0].Name kept "for compatibility with tests" (select.go), not a position of its own
			}
			out = append(out, tablePos{f.Name(), "name"})
		case isTR(f.Type()):
			out = append(out, tablePos{f.Name(), "ref"})
		default:
			if sl, ok := underlying(f.Type()).(*types.Slice); ok {
				if isTR(sl.Elem()) {
					out = append(out, tablePos{f.Name(), "refslice"})
				} else if n, ok := sl.Elem().(*types.Named); ok && n.Obj().Name() == "JoinClause" {
					out = append(out, tablePos{f.Name() + "[].Right", "joinright"})
				}
			}
		}
	}
	return out
}

// keyOrigin: which table position of base does the string value k (a map key / addTable argument) come from?
func keyOrigin(k ssa.Value, base ssa.Value, d int) (string, bool) {
	if d > 8 {
		return "", false
	}
	stripLoad := func(v ssa.Value) (ssa.Value, bool) {
		if u, ok := v.(*ssa.UnOp); ok && u.Op == token.MUL {
			return u.X, true
		}
		return nil, false
	}
	// container: the TableReference / JoinClause value (or address) whose .Name is read
	var container func(v ssa.Value, d int) (string, bool)
	container = func(v ssa.Value, d int) (string, bool) {
		if d > 8 {
			return "", false
		}
		if v == base {
			return "", true
		}
		join := func(p, name string) string {
			if p == "" {
				return name
			}
			return p + "." + name
		}
		switch x := v.(type) {
		case *ssa.FieldAddr:
			stt := underlying(x.X.Type().(*types.Pointer).Elem()).(*types.Struct)
			name := stt.Field(x.Field).Name()
			if x.X == base {
				return name, true
			}
			if p, ok := container(x.X, d+1); ok {
				return join(p, name), true
			}
		case *ssa.Field:
			stt := underlying(x.X.Type()).(*types.Struct)
			name := stt.Field(x.Field).Name()
			if p, ok := container(x.X, d+1); ok {
				return join(p, name), true
			}
		case *ssa.UnOp:
			if x.Op == token.MUL {
				return container(x.X, d+1)
			}
		case *ssa.IndexAddr:
			if p, ok := container(x.X, d+1); ok {
				return p + "[]", true
			}
		case *ssa.Alloc:
			// per-iteration copy of an element
			if refs := x.Referrers(); refs != nil {
				for _, r := range *refs {
					if st, ok := r.(*ssa.Store); ok && st.Addr == x {
						if p, ok := container(st.Val, d+1); ok {
							return p, true
						}
					}
				}
			}
		}
		return "", false
	}
	var nameOf func(v ssa.Value, d int) (string, bool)
	nameOf = func(v ssa.Value, d int) (string, bool) {
		if a, ok := stripLoad(v); ok {
			if fa, ok := a.(*ssa.FieldAddr); ok {
				stt := underlying(fa.X.Type().(*types.Pointer).Elem()).(*types.Struct)
				fname := stt.Field(fa.Field).Name()
				if fa.X == base {
					return fname, true // base.TableName
				}
				if p, ok := container(fa.X, d+1); ok && fname == "Name" {
					return p, true
				}
			}
		}
		if f, ok := v.(*ssa.Field); ok {
			stt := underlying(f.X.Type()).(*types.Struct)
			if stt.Field(f.Field).Name() == "Name" {
				if p, ok := container(f.X, d+1); ok {
					return p, true
				}
			}
		}
		return "", false
	}
	p, ok := nameOf(k, d)
	if !ok {
		return "", false
	}
	p = strings.ReplaceAll(p, "[].Right", "[].Right")
	return p, true
}

// argOrigin: the position of base a value handed to a helper denotes (a field value, its address, or an element)
func argOrigin(a ssa.Value, base ssa.Value) (string, bool) {
	// reuse keyOrigin's container walk by asking for the origin of a fictitious ".Name" below a: emulate with a walk
	var walk func(v ssa.Value, d int) (string, bool)
	walk = func(v ssa.Value, d int) (string, bool) {
		if d > 8 {
			return "", false
		}
		if v == base {
			return "", true
		}
		join := func(p, n string) string {
			if p == "" {
				return n
			}
			return p + "." + n
		}
		switch x := v.(type) {
		case *ssa.FieldAddr:
			n := underlying(x.X.Type().(*types.Pointer).Elem()).(*types.Struct).Field(x.Field).Name()
			if p, ok := walk(x.X, d+1); ok {
				return join(p, n), true
			}
		case *ssa.Field:
			n := underlying(x.X.Type()).(*types.Struct).Field(x.Field).Name()
			if p, ok := walk(x.X, d+1); ok {
				return join(p, n), true
			}
		case *ssa.UnOp:
			if x.Op == token.MUL {
				return walk(x.X, d+1)
			}
		case *ssa.IndexAddr:
			if p, ok := walk(x.X, d+1); ok {
				return p + "[]", true
			}
		case *ssa.Alloc:
			if refs := x.Referrers(); refs != nil {
				for _, r := range *refs {
					if st, ok := r.(*ssa.Store); ok && st.Addr == x {
						if p, ok := walk(st.Val, d+1); ok {
							return p, true
						}
					}
				}
			}
		}
		return "", false
	}
	return walk(a, 0)
}

// fnSinks: the stores into a table set (map updates, addTable calls) of a function
func fnSinks(fn *ssa.Function) (keys []ssa.Value, blocks []*ssa.BasicBlock) {
	for _, b := range fn.Blocks {
		for _, ins := range b.Instrs {
			switch x := ins.(type) {
			case *ssa.MapUpdate:
				keys, blocks = append(keys, x.Key), append(blocks, b)
			case *ssa.Call:
				if f := x.Call.StaticCallee(); f != nil && f.Name() == "addTable" && len(x.Call.Args) == 2 {
					keys, blocks = append(keys, x.Call.Args[1]), append(blocks, b)
				}
			}
		}
	}
	return
}

func reaches(a, b *ssa.BasicBlock) bool {
	seen := map[*ssa.BasicBlock]bool{}
	var w func(x *ssa.BasicBlock) bool
	w = func(x *ssa.BasicBlock) bool {
		for _, s := range x.Succs {
			if s == b {
				return true
			}
			if !seen[s] {
				seen[s] = true
				if w(s) {
					return true
				}
			}
		}
		return false
	}
	return w(a)
}

// alwaysRuns: block b of fn (or the header of the loop it sits in) is passed on every path to a return
func alwaysRuns(fn *ssa.Function, b *ssa.BasicBlock) bool {
	domAllRets := func(h *ssa.BasicBlock) bool {
		for _, r := range fn.Blocks {
			if len(r.Instrs) == 0 {
				continue
			}
			if _, ok := r.Instrs[len(r.Instrs)-1].(*ssa.Return); ok && !h.Dominates(r) {
				return false
			}
		}
		return true
	}
	for h := b; h != nil; h = h.Idom() {
		if domAllRets(h) && (h == b || (reaches(b, h) && reaches(h, b))) {
			return true
		}
	}
	return false
}

// runsWhenNonEmpty: the block is the true branch of `if key != ""` tested in a block that always runs - the helper
// stores the name whenever one is written there (the obligations are stated under "a name is written there")
func runsWhenNonEmpty(fn *ssa.Function, b *ssa.BasicBlock, key ssa.Value) bool {
	if len(b.Preds) != 1 {
		return false
	}
	p := b.Preds[0]
	if len(p.Instrs) == 0 || !alwaysRuns(fn, p) || len(p.Succs) != 2 || p.Succs[0] != b {
		return false
	}
	br, ok := p.Instrs[len(p.Instrs)-1].(*ssa.If)
	if !ok {
		return false
	}
	cmp, ok := br.Cond.(*ssa.BinOp)
	if !ok || cmp.Op != token.NEQ {
		return false
	}
	isEmpty := func(v ssa.Value) bool {
		c, ok := v.(*ssa.Const)
		return ok && c.Value != nil && c.Value.Kind() == constant.String && constant.StringVal(c.Value) == ""
	}
	return (cmp.X == key && isEmpty(cmp.Y)) || (cmp.Y == key && isEmpty(cmp.X))
}

// helperCovers: the paths (relative to parameter pi of the same-package helper fn) whose names the helper always
// stores into the table set: "" (the parameter's own Name), "[]" (every element of a slice parameter), "[].Right" ...
func helperCovers(fn *ssa.Function, pi int) []string {
	if fn == nil || len(fn.Blocks) == 0 || pi >= len(fn.Params) {
		return nil
	}
	var out []string
	keys, blocks := fnSinks(fn)
	for i, k := range keys {
		runs := alwaysRuns(fn, blocks[i]) || runsWhenNonEmpty(fn, blocks[i], k)
		if k == ssa.Value(fn.Params[pi]) && runs {
			out = append(out, "@key") // the helper is handed the name itself
			continue
		}
		if p, ok := keyOrigin(k, fn.Params[pi], 0); ok && runs {
			out = append(out, p)
		}
	}
	return out
}

func runC15(e *Engine, tier Tier) *PropRun {
	astPkg := e.SPkgs[modPath+"/pkg/sql/ast"]
	if astPkg == nil {
		return &PropRun{}
	}
	stmtIface := astPkg.Pkg.Scope().Lookup("Statement").Type().Underlying().(*types.Interface)
	opts := &VCOpts{InlineDepth: 0}
	want := map[string]bool{"gosqlx.(*tableCollector).collectFromNode": true, "gosqlx.(*qualifiedTableCollector).collectFromNode": true}
	// the three other collectors are under the descends clause only
	descendOnly := map[string]bool{"gosqlx.(*columnCollector).collectFromNode": true, "gosqlx.(*qualifiedColumnCollector).collectFromNode": true, "gosqlx.(*functionCollector).collectFromNode": true}
	fns := e.sourceFns(func(fn *ssa.Function, file string) bool { return want[fnKey(fn)] || descendOnly[fnKey(fn)] })
	nOb, nDesc := 0, 0
	post := func(fr *Frame, q *Query) {
		fn := fr.fn
		// descends: whatever case of the type switch was taken, a non-nil node's children are handed to the collector
		// again - the loop ranging over node.Children() whose body calls this function with the element is reached on
		// every returning path. (This is what lets the table positions of nested statements, join conditions and
		// sub-queries be decided by the per-statement clauses below together with C14.)
		if len(fn.Params) == 2 {
			nodeP := fn.Params[1]
			var hdrReach string
			found := false
			for _, b := range fn.Blocks {
				for _, ins := range b.Instrs {
					c, ok := ins.(*ssa.Call)
					if !ok || c.Call.StaticCallee() != fn || len(c.Call.Args) != 2 {
						continue
					}
					ld, ok := c.Call.Args[1].(*ssa.UnOp)
					if !ok {
						continue
					}
					ia, ok := ld.X.(*ssa.IndexAddr)
					if !ok {
						continue
					}
					src, ok := ia.X.(*ssa.Call)
					if !ok || !src.Call.IsInvoke() || src.Call.Method.Name() != "Children" || src.Call.Value != ssa.Value(nodeP) {
						continue
					}
					if li := fr.loopOf(b); li != nil {
						found = true
						hdrReach = fr.blockReach[li.header]
					}
				}
			}
			nonNil := "true"
			env := newSpecEnv(fr, fn)
			env.st, env.old = fr.entry, fr.entry
			if v, ok := fr.vals[nodeP]; ok {
				env.names["node"] = SV{T: nodeP.Type(), V: v}
				if c, err := parseClause("node != nil"); err == nil {
					if tt, err := env.evalBool(c.Expr); err == nil {
						nonNil = tt
					}
				}
			}
			if !found || hdrReach == "" {
				nDesc++
				q.obls = append(q.obls, &Obligation{Name: fnKey(fn) + "/schema/descends(node.Children())", Kind: "schema", Fn: fnKey(fn), Pos: e.posString(fn.Pos()), Guard: "true", Cond: "false",
					Desc: "no loop over node.Children() that hands each child to the collector", AssertIdx: len(q.asserts)})
			} else {
				for _, ret := range fr.rets {
					nDesc++
					o := q.addObligation(fr, "schema", "descends(node.Children())", ret.ins.Pos(), ret.reach, sImp(nonNil, hdrReach))
					o.Desc = "descends"
				}
			}
		}
		if !want[fnKey(fn)] {
			return
		}
		handled := map[string]ssa.Value{}
		guard := map[string]string{}
		for _, b := range fn.Blocks {
			for _, ins := range b.Instrs {
				ta, ok := ins.(*ssa.TypeAssert)
				if !ok || !ta.CommaOk {
					continue
				}
				pt, ok := underlying(ta.AssertedType).(*types.Pointer)
				if !ok {
					continue
				}
				nt, ok := pt.Elem().(*types.Named)
				if !ok {
					continue
				}
				for _, r := range *ta.Referrers() {
					if ex, ok := r.(*ssa.Extract); ok && ex.Index == 0 {
						handled[nt.Obj().Name()] = ex
						if tv, ok := fr.vals[ta]; ok {
							guard[nt.Obj().Name()] = tv.C[len(tv.C)-1]
						}
					}
				}
			}
		}
		// sinks: map updates on the collector's table set, or calls to addTable
		type sink struct {
			key   ssa.Value
			block *ssa.BasicBlock
			arg   ssa.Value // helper call: the argument handed over, and the paths below it the helper stores
			rel   []string
		}
		var sinks []sink
		for _, b := range fn.Blocks {
			for _, ins := range b.Instrs {
				switch x := ins.(type) {
				case *ssa.MapUpdate:
					sinks = append(sinks, sink{key: x.Key, block: b})
				case *ssa.Call:
					f := x.Call.StaticCallee()
					if f != nil && f.Name() == "addTable" && len(x.Call.Args) == 2 {
						sinks = append(sinks, sink{key: x.Call.Args[1], block: b})
					} else if f != nil && f.Pkg == fn.Pkg && f != fn {
						// a helper of the same package that stores names found below one of its arguments
						for i, a := range x.Call.Args {
							if rel := helperCovers(f, i); len(rel) > 0 {
								sinks = append(sinks, sink{block: b, arg: a, rel: rel})
							}
						}
					}
				}
			}
		}
		var names []string
		for _, t := range e.allNamed {
			nt, ok := t.(*types.Named)
			if !ok || nt.Obj().Pkg() == nil || nt.Obj().Pkg().Path() != modPath+"/pkg/sql/ast" {
				continue
			}
			if !types.Implements(types.NewPointer(t), stmtIface) {
				continue
			}
			// spec table (from the property statement): queries and INSERT/UPDATE/DELETE/MERGE statements
			switch nt.Obj().Name() {
			case "SelectStatement", "InsertStatement", "UpdateStatement", "DeleteStatement", "MergeStatement":
			default:
				continue
			}
			if len(tablePositions(t)) > 0 {
				names = append(names, nt.Obj().Name())
			}
		}
		sort.Strings(names)
		for _, n := range names {
			t := astPkg.Pkg.Scope().Lookup(n).Type()
			base, has := handled[n]
			for _, tp := range tablePositions(t) {
				nOb++
				name := fmt.Sprintf("%s/schema/table_position(%s.%s)", fnKey(fn), n, tp.Path)
				if !has {
					q.obls = append(q.obls, &Obligation{Name: name, Kind: "schema", Fn: fnKey(fn), Pos: e.posString(fn.Pos()), Guard: "true", Cond: "false",
						Desc: "no case for *ast." + n + " in the collector's type switch", AssertIdx: len(q.asserts)})
					continue
				}
				// coverage: some sink whose key originates from this position; slices: inside a loop ranging over it
				cov := "false"
				for _, s := range sinks {
					var ps []string
					if s.arg != nil {
						for _, r := range s.rel {
							if r == "@key" {
								if p, ok := keyOrigin(s.arg, base, 0); ok {
									ps = append(ps, p)
								}
							}
						}
						if ap, ok := argOrigin(s.arg, base); ok {
							for _, r := range s.rel {
								if r == "@key" {
									continue
								}
								if r == "" || strings.HasPrefix(r, "[") {
									ps = append(ps, ap+r)
								} else {
									ps = append(ps, ap+"."+r)
								}
							}
						}
					} else if p, ok := keyOrigin(s.key, base, 0); ok {
						ps = []string{p}
					}
					for _, p := range ps {
						match := false
						switch tp.Kind {
						case "name":
							match = p == tp.Path
						case "ref":
							match = p == tp.Path
						case "refslice":
							match = p == tp.Path+"[]"
						case "joinright":
							match = p == strings.Replace(tp.Path, "[].Right", "[].Right", 1) || p == strings.TrimSuffix(tp.Path, "[].Right")+"[].Right"
						}
						if !match {
							continue
						}
						r := fr.blockReach[s.block]
						if li := fr.loopOf(s.block); li != nil {
							r = fr.blockReach[li.header]
						}
						if r != "" {
							cov = sOr(cov, r)
						}
					}
				}
				// obligation on every return: the case was taken => the position was collected
				// non-empty: a name is written there
				ne := "true"
				env := newSpecEnv(fr, fn)
				env.st, env.old = fr.entry, fr.entry
				if ex, ok := base.(*ssa.Extract); ok {
					if tv, ok := fr.vals[ex.Tuple]; ok {
						env.names["n"] = SV{T: types.NewPointer(t), V: Val{C: tv.C[:1]}}
					}
				}
				var cl string
				switch tp.Kind {
				case "name":
					cl = "n." + tp.Path + " != \"\""
				case "ref":
					cl = "n." + tp.Path + ".Name != \"\""
				case "refslice":
					cl = "len(n." + tp.Path + ") > 0"
				case "joinright":
					cl = "len(n." + strings.TrimSuffix(tp.Path, "[].Right") + ") > 0"
				}
				if c, err := parseClause(cl); err == nil {
					if tt, err := env.evalBool(c.Expr); err == nil {
						ne = tt
					}
				}
				for _, ret := range fr.rets {
					o := q.addObligation(fr, "schema", fmt.Sprintf("table_position(%s.%s)", n, tp.Path), ret.ins.Pos(), ret.reach, sImp(sAnd(guard[n], ne), cov))
					o.Desc = tp.Kind
				}
			}
		}
	}
	rs := e.verifyAll(fns, opts, post)
	return &PropRun{
		Results: rs, FUC: fucList(rs),
		Claim:       func(o *Obligation) bool { return o.Kind == "schema" },
		Explanation: "Table part of the property. The table positions are enumerated from go/types by rule (spec table): every field of a statement type that is a TableName string, a TableReference, a []TableReference, or the Right side of a []JoinClause; JoinClause.Left is excluded because for joins after the first the parser stores a synthesised name there. For both table collectors (plain and qualified) and every position: the collector's type switch has a case for the statement type, and on every returning path through that case a store into the table set (or addTable call) whose key is read from that position is reached (slices: the loop ranging over the field is entered). Nested statements, join conditions and sub-queries are reached through the generic recursion: for all five collectors (tables, qualified tables, columns, qualified columns, functions) and every returning path of collectFromNode with a non-nil node - whichever case of the type switch was taken - the loop that ranges over node.Children() and hands each child to the collector again is reached (descends clause); that Children() returns every child is what C14 decides.",
		NotCovered:  []string{"which names the column and function collectors store (own(T) cases of the three other collectors: not built; only their descent is under contract)", "a case that handles all of its node's children itself and returns early would satisfy the property but not the descends clause (sufficient condition; no such case exists)", "that nothing else is inserted (aliases, synthesised names): only the positive direction is decided", "duplicate-freedom (results are map key sets, by construction)", "qualifier splitting in addTable"},
		Assumptions: []string{"range-over-whole-slice template as in C14", "C14: Children() returns every child, so the recursion reaches nested statements"},
		Extra:       map[string]any{"table_position_obligations": nOb, "descends_obligations": nDesc},
	}
}
