package main

// C16 — injection findings context-closed, layout-invariant, self-consistent (DESIGN 4.16).

import (
	"fmt"
	"go/token"
	"go/types"
	"sort"
	"strings"

	"golang.org/x/tools/go/ssa"
)

func init() {
	register(&propDriver{ID: "C16", Title: "Injection findings are context-closed, layout-invariant and self-consistent", Run: runC16})
}

const secPkg = modPath + "/pkg/sql/security"

// scanCallee: a call to one of the scanner's own recursive scanning functions
func isScanFn(f *ssa.Function) bool {
	if f == nil || funcPkgPath(f) != secPkg {
		return false
	}
	n := f.Name()
	return strings.HasPrefix(n, "scan") || strings.HasPrefix(n, "check") || n == "isTautology"
}

// derivedFrom: is v (an argument of a scan call) the field `path` of base, or an element of it?
func scanArgField(ca *coverAnalysis, v ssa.Value, li *loopInfo) (string, bool) {
	if f, ok := ca.fieldPathOf(v); ok {
		return f, true
	}
	if f, ok := ca.elemOf(v, li); ok {
		return f, true
	}
	switch x := v.(type) {
	case *ssa.MakeInterface:
		return scanArgField(ca, x.X, li)
	case *ssa.ChangeInterface:
		return scanArgField(ca, x.X, li)
	case *ssa.UnOp:
		if x.Op == token.MUL {
			if fa, ok := x.X.(*ssa.FieldAddr); ok {
				// field of an element: elem.f -> the element's container field
				if ld, ok := fa.X.(*ssa.IndexAddr); ok {
					return ca.fieldPathOf(ld.X)
				}
			}
		}
	case *ssa.Field:
		return scanArgField(ca, x.X, li)
	}
	return "", false
}

// isGenericScan: the function scans whatever a node contains - it calls Children() on its node parameter, ranges over
// the result and hands every element (directly, or after a type switch) to scan functions. Which children a node has
// is C14's business (children_cover); here only the shape of the traversal is checked.
func isGenericScan(f *ssa.Function) bool {
	if f == nil || len(f.Blocks) == 0 || !isScanFn(f) {
		return false
	}
	var kids ssa.Value
	for _, b := range f.Blocks {
		for _, ins := range b.Instrs {
			if c, ok := ins.(*ssa.Call); ok && c.Call.IsInvoke() && c.Call.Method.Name() == "Children" {
				if _, isParam := c.Call.Value.(*ssa.Parameter); isParam {
					kids = c
				}
			}
		}
	}
	if kids == nil {
		return false
	}
	// some scan call takes a value derived from an element of kids
	var fromKids func(v ssa.Value, d int) bool
	fromKids = func(v ssa.Value, d int) bool {
		if d > 8 {
			return false
		}
		switch x := v.(type) {
		case *ssa.UnOp:
			return fromKids(x.X, d+1)
		case *ssa.IndexAddr:
			return x.X == kids
		case *ssa.TypeAssert:
			return fromKids(x.X, d+1)
		case *ssa.Extract:
			return fromKids(x.Tuple, d+1)
		case *ssa.ChangeInterface:
			return fromKids(x.X, d+1)
		case *ssa.MakeInterface:
			return fromKids(x.X, d+1)
		case *ssa.Phi:
			for _, e := range x.Edges {
				if fromKids(e, d+1) {
					return true
				}
			}
		}
		return false
	}
	for _, b := range f.Blocks {
		for _, ins := range b.Instrs {
			if c, ok := ins.(*ssa.Call); ok && isScanFn(c.Call.StaticCallee()) {
				for _, a := range c.Call.Args[1:] {
					if fromKids(a, 0) {
						return true
					}
				}
			}
		}
	}
	return false
}

func runC16(e *Engine, tier Tier) *PropRun {
	astPkg := e.SPkgs[modPath+"/pkg/sql/ast"]
	sec := e.SPkgs[secPkg]
	if astPkg == nil || sec == nil {
		return &PropRun{}
	}
	nodeIface := astPkg.Pkg.Scope().Lookup("Node").Type().Underlying().(*types.Interface)
	exprIface := astPkg.Pkg.Scope().Lookup("Expression").Type().Underlying().(*types.Interface)
	stmtIface := astPkg.Pkg.Scope().Lookup("Statement").Type().Underlying().(*types.Interface)
	opts := &VCOpts{InlineDepth: 1}
	// (4) every append of a finding is guarded by shouldInclude(finding.Severity) on the same path
	type siCall struct{ sev, res string }
	siCalls := map[*Query][]siCall{}
	opts.AfterCall = func(fr *Frame, ins ssa.Instruction, c *ssa.CallCommon, callee *ssa.Function, args []Val, res Val) {
		if callee != nil && callee.Name() == "shouldInclude" && funcPkgPath(callee) == secPkg && len(args) == 2 && len(res.C) == 1 {
			siCalls[fr.q] = append(siCalls[fr.q], siCall{args[1].C[0], res.C[0]})
		}
	}
	opts.OnCall = func(fr *Frame, ins ssa.CallInstruction, callee *ssa.Function, args []Val) {
		c := ins.Common()
		b, ok := c.Value.(*ssa.Builtin)
		if !ok || b.Name() != "append" || len(c.Args) != 2 {
			return
		}
		sl, ok := underlying(c.Args[0].Type()).(*types.Slice)
		if !ok {
			return
		}
		n, ok := sl.Elem().(*types.Named)
		if !ok || n.Obj().Name() != "Finding" || n.Obj().Pkg().Path() != secPkg {
			return
		}
		if fr.parent != nil {
			return
		}
		// the appended element's Severity: first leaf of element 0 of the packed argument
		elemPtr := args[1].C[0]
		sev := fr.load(fr.cur.st, elemPtr, sl.Elem()).C[0]
		var alts []string
		for _, sc := range siCalls[fr.q] {
			alts = append(alts, sAnd(sEq(sc.sev, sev), sc.res))
		}
		fr.q.addObligation(fr, "struct", "append(Findings) guarded by shouldInclude(severity)", ins.Pos(), fr.cur.reach, sOr(alts...))
	}
	fns := e.sourceFns(func(fn *ssa.Function, file string) bool {
		return fn.Parent() == nil && funcPkgPath(fn) == secPkg && fn.Signature.Recv() != nil
	})
	nCover := 0
	post := func(fr *Frame, q *Query) {
		fn := fr.fn
		if !strings.HasPrefix(fn.Name(), "scan") {
			return
		}
		// bases: pointer-to-AST-struct parameters, and type-switch cases on an interface parameter
		type base struct {
			v     ssa.Value
			t     types.Type
			name  string
			guard string // condition under which this base is the node being scanned
		}
		var bases []base
		for _, p := range fn.Params[1:] {
			if pt, ok := underlying(p.Type()).(*types.Pointer); ok {
				if nt, ok := pt.Elem().(*types.Named); ok && nt.Obj().Pkg() != nil && nt.Obj().Pkg().Path() == modPath+"/pkg/sql/ast" {
					if v, ok := fr.vals[p]; ok {
						bases = append(bases, base{p, pt.Elem(), nt.Obj().Name(), "(not (= " + v.C[0] + " 0))"})
					}
				}
			}
		}
		handled := map[string]bool{}
		for _, b := range fn.Blocks {
			for _, ins := range b.Instrs {
				ta, ok := ins.(*ssa.TypeAssert)
				if !ok || !ta.CommaOk {
					continue
				}
				pt, ok := underlying(ta.AssertedType).(*types.Pointer)
				if !ok {
					continue
				}
				nt, ok := pt.Elem().(*types.Named)
				if !ok {
					continue
				}
				handled[nt.Obj().Name()] = true
				// the extracted pointer
				for _, r := range *ta.Referrers() {
					if ex, ok := r.(*ssa.Extract); ok && ex.Index == 0 {
						if tv, ok := fr.vals[ta]; ok {
							okc := tv.C[len(tv.C)-1]
							bases = append(bases, base{ex, pt.Elem(), nt.Obj().Name(), okc})
						}
					}
				}
			}
		}
		for _, bs := range bases {
			var nfs []nodeField
			nodeFields(e, bs.t, nodeIface, "", nil, 0, &nfs)
			ca := &coverAnalysis{e: e, fr: fr, recv: bs.v, cov: map[ssa.Value]covMap{}, summaries: map[*ssa.Function]bool{}}
			cov := map[string]string{}
			for _, b := range fn.Blocks {
				li := fr.loopOf(b)
				for _, ins := range b.Instrs {
					c, ok := ins.(*ssa.Call)
					if !ok || !isScanFn(c.Call.StaticCallee()) {
						continue
					}
					for _, a := range c.Call.Args[1:] {
						// the whole node handed to another scan function: all of its fields are that function's duty
						w := a
						if mi, ok := w.(*ssa.MakeInterface); ok {
							w = mi.X
						}
						if ci, ok := w.(*ssa.ChangeInterface); ok {
							w = ci.X
						}
						if w == bs.v && li == nil {
							cov["*"] = sOr(cov["*"], fr.blockReach[b])
							continue
						}
						if f, ok := scanArgField(ca, a, li); ok {
							r := fr.blockReach[b]
							if li != nil && ca.rangesWholeSlice(li, f) {
								// the loop runs over the whole field: reaching its header stands for "every element is scanned"
								// provided the call is made on every iteration
								dom := true
								for _, src := range li.backs {
									if !b.Dominates(src) {
										dom = false
									}
								}
								if dom {
									r = fr.blockReach[li.header]
								} else {
									r = ""
								}
							} else if li != nil {
								r = ""
							}
							if r != "" {
								cov[f] = sOr(cov[f], r)
							}
						}
					}
				}
			}
			for _, ret := range fr.rets {
				env := newSpecEnv(fr, fn)
				env.st, env.old = fr.entry, fr.entry
				env.names["n"] = SV{T: types.NewPointer(bs.t), V: fr.vals[bs.v]}
				if ex, ok := bs.v.(*ssa.Extract); ok {
					tv := fr.vals[ex.Tuple]
					env.names["n"] = SV{T: types.NewPointer(bs.t), V: Val{C: tv.C[:1]}}
				}
				for _, nf := range nfs {
					var ne string
					var cl string
					switch nf.Kind {
					case "ref":
						cl = "n." + nf.Path + " != nil"
					case "slice", "valslice", "slice2", "structslice":
						cl = "len(n." + nf.Path + ") > 0"
					default:
						continue
					}
					c, err := parseClause(cl)
					if err != nil {
						continue
					}
					ne, err = env.evalBool(c.Expr)
					if err != nil {
						continue
					}
					for _, g := range nf.Guards {
						if gc, err := parseClause("n." + g + " != nil"); err == nil {
							if gt, err := env.evalBool(gc.Expr); err == nil {
								ne = sAnd(gt, ne)
							}
						}
					}
					cv := sOr(cov[nf.Path], cov["*"])
					nCover++
					q.addObligation(fr, "schema", fmt.Sprintf("scan_cover(%s.%s)", bs.name, nf.Path), ret.ins.Pos(), ret.reach, sImp(sAnd(bs.guard, ne), cv))
				}
			}
		}
		// type cases: every expression / statement type with node-holding fields has a case
		var iface *types.Interface
		switch fn.Name() {
		case "scanExpression":
			iface = exprIface
		case "scanStatement":
			iface = stmtIface
		}
		if iface != nil {
			var names []string
			for _, t := range e.allNamed {
				nt, ok := t.(*types.Named)
				if !ok || nt.Obj().Pkg() == nil || nt.Obj().Pkg().Path() != modPath+"/pkg/sql/ast" {
					continue
				}
				if !types.Implements(types.NewPointer(t), iface) {
					continue
				}
				var nfs []nodeField
				nodeFields(e, t, nodeIface, "", nil, 0, &nfs)
				if len(nfs) == 0 {
					continue
				}
				names = append(names, nt.Obj().Name())
			}
			sort.Strings(names)
			// a default branch that hands the switch operand (the interface parameter itself) to a generic scan covers
			// every type that has no case of its own
			generic := false
			for _, b := range fn.Blocks {
				for _, ins := range b.Instrs {
					c, ok := ins.(*ssa.Call)
					if !ok || !isGenericScan(c.Call.StaticCallee()) {
						continue
					}
					for _, a := range c.Call.Args[1:] {
						w := a
						if ci, ok := w.(*ssa.ChangeInterface); ok {
							w = ci.X
						}
						if p, ok := w.(*ssa.Parameter); ok && p == fn.Params[1] {
							generic = true
						}
					}
				}
			}
			for _, n := range names {
				ans := "sat"
				if handled[n] || generic {
					ans = "unsat"
				}
				nCover++
				fr.q.obls = append(fr.q.obls, &Obligation{Name: fmt.Sprintf("%s/schema/scan_case(%s)", fnKey(fn), n), Kind: "schema", Fn: fnKey(fn), Pos: e.posString(fn.Pos()),
					Guard: "true", Cond: map[string]string{"unsat": "true", "sat": "false"}[ans], Desc: "the type switch of " + fn.Name() + " has a case for *ast." + n, AssertIdx: len(fr.q.asserts)})
			}
		}
	}
	rs := e.verifyAll(fns, opts, post)
	return &PropRun{
		Results: rs, FUC: fucList(rs),
		Claim: func(o *Obligation) bool {
			return o.Kind == "schema" || o.Kind == "struct" || o.Kind == "post" || o.Kind == "inv-init" || o.Kind == "inv-pres"
		},
		Explanation: "(1) Context closure - schema scan_cover(T.f), enumerated from go/types: for every scanner function that receives an AST node of type T (as a parameter or through a type-switch case) and every node-holding field f of T, on every path that returns, f non-empty implies a recursive scan call was made on f (or, for slices, that the loop ranging over the whole field and scanning each element was entered); schema scan_case(T): the type switches of scanExpression / scanStatement have a case for every expression / statement type that holds nodes. (2) Threshold: every append to Findings is preceded, on the same path, by a call shouldInclude(that finding's severity) that returned true. (3) Counts: updateCounts proves TotalCount == len(Findings) and each per-severity count equals the number of findings of that severity (recursive counting spec, loop invariant).",
		NotCovered:  []string{"the regular-expression side of ScanSQL (regexp semantics are outside the engine)", "isTautology against the full documented payload list", "layout invariance (inherited from scanning the tree, which carries no layout)", "that Scan does not modify the tree (frame) and does not depend on previous scans"},
		Assumptions: []string{"range-over-whole-slice template as in C14"},
		Extra:       map[string]any{"cover_obligations": nCover},
	}
}
