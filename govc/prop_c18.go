package main

import (
	"go/types"
	"strings"

	"golang.org/x/tools/go/ssa"
)

func init() {
	register(&propDriver{ID: "C18", Title: "Language server never dies, answers each request once, mirrors the document", Run: runC18})
}

func runC18(e *Engine, tier Tier) *PropRun {
	opts := &VCOpts{Safety: true, InlineDepth: 2}
	// object invariant of the documents held by the manager: assumed for what is read from the map, an obligation for
	// what is put into it and, at every return, for every document that was read from it (it may have been edited)
	docT, _ := e.resolveType(modPath+"/pkg/lsp", "*Document")
	isDocMap := func(t types.Type) bool {
		mt, ok := underlying(t).(*types.Map)
		return ok && docT != nil && types.Identical(mt.Elem(), docT)
	}
	docOK := func(fr *Frame, st *State, p string) (string, bool) {
		env := newSpecEnv(fr, fr.fn)
		env.st, env.old = st, st
		env.names["d"] = SV{T: docT, V: Val{C: []string{p}}}
		c, err := parseClause("docOK(d)")
		if err != nil {
			return "", false
		}
		t, err := env.evalBool(c.Expr)
		return t, err == nil
	}
	seenDocs := map[*Frame][]string{}
	opts.OnMapLookup = func(fr *Frame, x *ssa.Lookup, v Val) {
		if !isDocMap(x.X.Type()) {
			return
		}
		if t, ok := docOK(fr, fr.cur.st, v.C[0]); ok {
			fr.q.assume(fr.cur.reach, sImp("(not (= "+v.C[0]+" 0))", t))
			seenDocs[fr.root()] = append(seenDocs[fr.root()], v.C[0])
		}
	}
	opts.OnMapUpdate = func(fr *Frame, x *ssa.MapUpdate) {
		if !isDocMap(x.Map.Type()) {
			return
		}
		p := fr.val(x.Value).C[0]
		if t, ok := docOK(fr, fr.cur.st, p); ok {
			fr.q.addObligation(fr, "struct", "document stored in the manager mirrors its content (docOK)", x.Pos(), fr.cur.reach, sImp("(not (= "+p+" 0))", t))
		}
	}
	editsDoc := func(fn *ssa.Function) bool {
		for _, b := range fn.Blocks {
			for _, ins := range b.Instrs {
				if st, ok := ins.(*ssa.Store); ok {
					if fa, ok := st.Addr.(*ssa.FieldAddr); ok && docT != nil && types.Identical(fa.X.Type(), docT) {
						// the document must be one that came out of the manager's map (not a fresh copy being filled in)
						v := fa.X
						if ex, ok := v.(*ssa.Extract); ok {
							v = ex.Tuple
						}
						if lk, ok := v.(*ssa.Lookup); ok && isDocMap(lk.X.Type()) {
							return true
						}
					}
				}
			}
		}
		return false
	}
	opts.OnReturn = func(fr *Frame, ret *ssa.Return, results []Val) {
		if !editsDoc(fr.fn) {
			return // only functions that assign a document's fields can break its invariant
		}
		for _, p := range seenDocs[fr] {
			if t, ok := docOK(fr, fr.cur.st, p); ok {
				fr.q.addObligation(fr, "struct", "document read from the manager still mirrors its content at return (docOK)", ret.Pos(), fr.cur.reach, sImp("(not (= "+p+" 0))", t))
			}
		}
	}
	fns := e.sourceFns(func(fn *ssa.Function, file string) bool {
		return strings.HasPrefix(file, "pkg/lsp/") && fn.Parent() == nil
	})
	rs := e.verifyAll(fns, opts, nil)
	return &PropRun{
		Results: rs, FUC: fucList(rs),
		Explanation: "Document mirror: functional contracts on positionToOffset (against the recursive spec sumLines: byte length of the preceding lines), utf16ToByteOffset, clampOffset, applyChange, GetWordAtPosition with loop invariants and variants; plus the zero-annotation panic-freedom sweep (index, slice, nil, type assertion, division, explicit panic) over every function of pkg/lsp, of which only the obligations in the committed baseline are claimed.",
		NotCovered:  []string{"JSON decoding of arbitrary bytes (encoding/json trusted)", "one-response-per-request over a whole conversation (history property)", "diagnostics content", "goroutine scheduling in Run"},
		Assumptions: []string{"methods are not called on nil receivers", "strings.Split / strings.Builder behave as documented (assumed contracts)"},
	}
}
