package main

import (
	"strings"

	"golang.org/x/tools/go/ssa"
)

func init() {
	register(&propDriver{ID: "C18", Title: "Language server never dies, answers each request once, mirrors the document", Run: runC18})
}

func runC18(e *Engine, tier Tier) *PropRun {
	opts := &VCOpts{Safety: true, InlineDepth: 2}
	fns := e.sourceFns(func(fn *ssa.Function, file string) bool {
		return strings.HasPrefix(file, "pkg/lsp/") && fn.Parent() == nil
	})
	rs := e.verifyAll(fns, opts, nil)
	return &PropRun{
		Results: rs, FUC: fucList(rs),
		Explanation: "Document mirror: functional contracts on positionToOffset (against the recursive spec sumLines: byte length of the preceding lines), utf16ToByteOffset, clampOffset, applyChange, GetWordAtPosition with loop invariants and variants; plus the zero-annotation panic-freedom sweep (index, slice, nil, type assertion, division, explicit panic) over every function of pkg/lsp, of which only the obligations in the committed baseline are claimed.",
		NotCovered: []string{"JSON decoding of arbitrary bytes (encoding/json trusted)", "one-response-per-request over a whole conversation (history property)", "diagnostics content", "goroutine scheduling in Run"},
		Assumptions: []string{"methods are not called on nil receivers", "strings.Split / strings.Builder behave as documented (assumed contracts)"},
	}
}
