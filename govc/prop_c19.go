package main

// C19 — CLI: files are never left half-written; check-only modes never write; format's verdict (DESIGN 4.19, partial).

import (
	"fmt"
	"go/token"
	"go/types"
	"strings"

	"golang.org/x/tools/go/ssa"
)

func init() {
	register(&propDriver{ID: "C19", Title: "CLI verdicts match the library; files are never left half-written", Run: runC19})
}

const cmdPkg = modPath + "/cmd/gosqlx/cmd"

// fsWriteTarget: for a call that writes the file system, the index of the argument naming the file it (over)writes
// non-atomically (truncate/create), or -1.
func fsTruncatingWrite(callee *ssa.Function) int {
	if callee == nil {
		return -1
	}
	switch callee.String() {
	case "os.WriteFile", "io/ioutil.WriteFile", "os.Create", "os.OpenFile", "os.Truncate":
		return 0
	}
	return -1
}

// derivesFromInputFile: does the path value come from the list of input files being processed (a range element, or
// the Filename/Path field of a per-file result), as opposed to an option or parameter naming a separate output file?
func derivesFromInputFile(v ssa.Value, d int) bool {
	if d > 8 {
		return false
	}
	switch x := v.(type) {
	case *ssa.UnOp:
		if x.Op == token.MUL {
			switch a := x.X.(type) {
			case *ssa.IndexAddr:
				return true // element of a slice (of file names)
			case *ssa.FieldAddr:
				st := underlying(a.X.Type().(*types.Pointer).Elem()).(*types.Struct)
				n := st.Field(a.Field).Name()
				return n == "Filename" || n == "Path" || n == "File"
			}
		}
	case *ssa.Field:
		st := underlying(x.X.Type()).(*types.Struct)
		n := st.Field(x.Field).Name()
		return n == "Filename" || n == "Path" || n == "File"
	case *ssa.Call:
		// filepath.Clean(p) and friends keep the identity
		if f := x.Call.StaticCallee(); f != nil && funcPkgPath(f) == "path/filepath" && len(x.Call.Args) > 0 {
			return derivesFromInputFile(x.Call.Args[0], d+1)
		}
	case *ssa.Phi:
		for _, e := range x.Edges {
			if e != v && derivesFromInputFile(e, d+1) {
				return true
			}
		}
	case *ssa.Extract:
		return false
	}
	return false
}

func runC19(e *Engine, tier Tier) *PropRun {
	opts := &VCOpts{InlineDepth: 1, NoContents: true}
	var errResults map[*Query][]struct {
		term  string
		block *ssa.BasicBlock
		what  string
	}
	errResults = map[*Query][]struct {
		term  string
		block *ssa.BasicBlock
		what  string
	}{}
	opts.AfterCall = func(fr *Frame, ins ssa.Instruction, c *ssa.CallCommon, callee *ssa.Function, args []Val, res Val) {
		if fr.parent != nil || fr.fn.Name() != "writeFileAtomic" {
			return
		}
		// remember the error result of every fallible step
		var rt *types.Tuple
		if callee != nil {
			rt = callee.Signature.Results()
		} else if c.IsInvoke() {
			rt = c.Method.Type().(*types.Signature).Results()
		}
		if rt == nil || rt.Len() == 0 || !isErrorType(rt.At(rt.Len()-1).Type()) {
			return
		}
		if len(res.C) < 2 {
			return
		}
		name := "call"
		if callee != nil {
			name = callee.Name()
		}
		switch name {
		case "CreateTemp", "Write", "WriteString", "Sync", "Close", "Chmod":
		default:
			return // not a step of producing the temporary file (e.g. the Stat that only reads the old mode)
		}
		errResults[fr.q] = append(errResults[fr.q], struct {
			term  string
			block *ssa.BasicBlock
			what  string
		}{res.C[len(res.C)-2], ins.Block(), name})
	}
	// provenance of file contents: bytes read from a file, and the strings made of them, belong to that file
	opts.OnBytesToString = func(fr *Frame, x *ssa.Convert, bytes Val, str Val) {
		b := fr.uf("g_bsrc", []string{bytes.C[0]}, []string{"Int"}, "Str")
		g := fr.uf("g_src", []string{str.C[0]}, []string{"Str"}, "Str")
		fr.q.assume(fr.cur.reach, sEq(g, b))
	}
	opts.OnStringToBytes = func(fr *Frame, x *ssa.Convert, str Val, bytes Val) {
		b := fr.uf("g_bsrc", []string{bytes.C[0]}, []string{"Int"}, "Str")
		g := fr.uf("g_src", []string{str.C[0]}, []string{"Str"}, "Str")
		fr.q.assume(fr.cur.reach, sEq(b, g))
	}
	prevAfter := opts.AfterCall
	opts.AfterCall = func(fr *Frame, ins ssa.Instruction, c *ssa.CallCommon, callee *ssa.Function, args []Val, res Val) {
		if prevAfter != nil {
			prevAfter(fr, ins, c, callee, args, res)
		}
		if callee != nil && callee.String() == "os.ReadFile" && len(args) == 1 && len(res.C) >= 3 {
			b := fr.uf("g_bsrc", []string{res.C[0]}, []string{"Int"}, "Str")
			fr.q.assume(fr.cur.reach, "(=> (not (= "+res.C[0]+" 0)) "+sEq(b, args[0].C[0])+")")
		}
	}
	opts.OnCall = func(fr *Frame, ins ssa.CallInstruction, callee *ssa.Function, args []Val) {
		if fr.parent != nil || callee == nil {
			return
		}
		q := fr.q
		root := fr.fn
		full := callee.String()
		// (1) no truncating write on an input file
		if i := fsTruncatingWrite(callee); i >= 0 && i < len(ins.Common().Args) {
			if derivesFromInputFile(ins.Common().Args[i], 0) {
				q.addObligation(fr, "crash", fmt.Sprintf("%s(input file) is not atomic", full), ins.Pos(), fr.cur.reach, "false").Desc = "a truncating write on the path of a file being processed: an interruption leaves it empty or half-written; use writeFileAtomic"
			}
		}
		isWrite := fsTruncatingWrite(callee) >= 0 || callee.Name() == "writeFileAtomic" || full == "os.Rename" || full == "os.Remove"
		// (2) check-only never writes / (3) a file is replaced only if its processing succeeded
		if isWrite && root.Name() == "Format" && root.Signature.Recv() != nil {
			env := newSpecEnv(fr, root)
			env.bindParams(root, fr.params)
			env.st, env.old = fr.cur.st, fr.entry
			if c, err := parseClause("!f.Opts.Check"); err == nil {
				if t, err := env.evalBool(c.Expr); err == nil {
					q.addObligation(fr, "struct", "check-only never writes: "+callee.Name(), ins.Pos(), fr.cur.reach, t)
				}
			}
			if callee.Name() == "writeFileAtomic" && len(args) >= 2 && len(args[1].C) == 3 {
				// the bytes written (when there are any) were made from the file they replace
				bs := fr.uf("g_bsrc", []string{args[1].C[0]}, []string{"Int"}, "Str")
				cond := "(=> (> " + args[1].C[1] + " 0) " + sEq(bs, args[0].C[0]) + ")"
				q.addObligation(fr, "struct", "the text written to a file was made from that file: "+callee.Name(), ins.Pos(), fr.cur.reach, cond)
			}
			if c, err := parseClause("fileResult.Error == nil"); err == nil {
				if t, err := env.evalBool(c.Expr); err == nil {
					q.addObligation(fr, "struct", "file replaced only if its processing succeeded: "+callee.Name(), ins.Pos(), fr.cur.reach, t)
				} else {
					q.note("C19: " + err.Error())
				}
			}
		}
		// (4) inside the atomic helper: the rename is reached only if every earlier step succeeded, and it is the only
		// operation applied to the destination path
		if root.Name() == "writeFileAtomic" {
			if full == "os.Rename" {
				for _, er := range errResults[q] {
					if er.block.Dominates(ins.Block()) && er.block != ins.Block() {
						q.addObligation(fr, "crash", "rename only after "+er.what+" succeeded", ins.Pos(), fr.cur.reach, "(= "+er.term+" 0)")
					}
				}
				// destination is the path parameter
				if p, ok := ins.Common().Args[1].(*ssa.Parameter); !ok || p != root.Params[0] {
					q.addObligation(fr, "crash", "rename targets the requested path", ins.Pos(), fr.cur.reach, "false")
				}
			} else if i := fsTruncatingWrite(callee); i >= 0 {
				if p, ok := ins.Common().Args[i].(*ssa.Parameter); ok && p == root.Params[0] {
					q.addObligation(fr, "crash", full+" on the destination path", ins.Pos(), fr.cur.reach, "false")
				}
			}
		}
	}
	want := map[string]bool{}
	fns := e.sourceFns(func(fn *ssa.Function, file string) bool {
		if funcPkgPath(fn) != cmdPkg || fn.Parent() != nil {
			return false
		}
		switch fn.Name() {
		case "Format", "formatFile", "writeFileAtomic", "lintRun", "formatRun", "validateRun":
			want[fnKey(fn)] = true
			return true
		}
		return false
	})
	nRename := 0
	post := func(fr *Frame, q *Query) {
		if fr.fn.Name() == "writeFileAtomic" {
			// the helper must actually rename
			for _, b := range fr.fn.Blocks {
				for _, ins := range b.Instrs {
					if c, ok := ins.(*ssa.Call); ok {
						if f := c.Call.StaticCallee(); f != nil && f.String() == "os.Rename" {
							nRename++
						}
					}
				}
			}
			ans := "false"
			if nRename > 0 {
				ans = "true"
			}
			q.obls = append(q.obls, &Obligation{Name: fnKey(fr.fn) + "/crash/the atomic helper publishes with os.Rename", Kind: "crash", Fn: fnKey(fr.fn), Guard: "true", Cond: ans, AssertIdx: len(q.asserts)})
		}
	}
	rs := e.verifyAll(fns, opts, post)
	// the helper must exist and the in-place sites must use it
	syn := &FnResult{Fn: "cmd"}
	if e.Fn("cmd/gosqlx/cmd.writeFileAtomic") == nil {
		syn.Obls = append(syn.Obls, &Obligation{Name: "cmd/crash/atomic write helper exists", Kind: "crash", Answer: "sat", Solver: "structure"})
	} else {
		syn.Obls = append(syn.Obls, &Obligation{Name: "cmd/crash/atomic write helper exists", Kind: "crash", Answer: "unsat", Solver: "structure"})
	}
	rs = append(rs, syn)
	return &PropRun{
		Results: rs, FUC: fucList(rs),
		Claim: func(o *Obligation) bool {
			return o.Kind == "crash" || o.Kind == "struct" || ((o.Kind == "post" || strings.HasPrefix(o.Kind, "inv")) && strings.Contains(o.Fn, "Format"))
		},
		Level:       "other",
		Explanation: "Crash-state and write discipline of the two in-place rewriters (format -i in Formatter.Format, lint --auto-fix in lintRun), with the file-system primitives as assumed contracts (os.WriteFile/Create/OpenFile truncate their target; os.Rename replaces atomically). crash obligations: no truncating write is applied to the path of a file being processed (path provenance over SSA); inside writeFileAtomic the destination path is touched by os.Rename only, and the rename is reached only on paths where every earlier fallible step (CreateTemp, Write, Sync, Close, Chmod) returned nil (path conditions from the VC generator). struct obligations at every file-system write in Formatter.Format: Opts.Check is false there (check-only never writes) and the file's own processing succeeded (fileResult.Error == nil). Provenance: a ghost srcof(text) names the file a text was read from or made of (os.ReadFile, string/[]byte conversions and the assumed contract of formatSQL carry it); formatFile is proved to report a text made from the file it was asked about, and at the in-place write in Format the bytes written (when there are any) are proved to have been made from the very file they replace.",
		NotCovered:  []string{"process exit status and stdout of the built binary, cobra flag plumbing, glob expansion", "validate / parse verdicts and machine-readable reports (JSON, SARIF)", "three-way consistency print / -i / --check beyond sharing the same Changed flag", "lint --auto-fix rewriting a file although one rule's Fix returned an error", "a crash between rename and directory sync (durability)", "the --output file of format and lint (not in-place; written with os.WriteFile)"},
		Assumptions: []string{"(*Formatter).formatSQL: the formatted text is made from the text handed in (trusted contract; its body goes through tokenizer, parser and AST formatter)", "os.Rename within one directory is atomic; os.WriteFile/os.Create/os.OpenFile may leave a truncated file", "os.CreateTemp in the destination directory yields a path on the same file system"},
	}
}
