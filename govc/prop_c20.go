package main

// C20 — processing cost grows near-linearly with input size (DESIGN 4.20, partial: tokenizer and dollar-quote stripper).
//
// Cost is a ghost counter of abstract steps: one per passage of a loop header, plus the assumed cost of every call whose
// body is not executed by the generator (library calls: linear in their string/slice operands unless listed otherwise;
// strings.Index-like searches: position found + needle, or the haystack when not found) and of string concatenation and
// string<->[]byte conversion (length copied). Contracts bound cost() by a linear expression in the bytes consumed
// (cursor advance), which telescopes to a bound linear in len(input) for a whole run.

import (
	"sort"
	"strings"

	"golang.org/x/tools/go/ssa"
)

func init() {
	register(&propDriver{ID: "C20", Title: "Processing cost grows near-linearly with input size", Run: runC20})
}

func runC20(e *Engine, tier Tier) *PropRun {
	opts := &VCOpts{InlineDepth: 1, Cost: true, CheckTags: map[string]bool{"C20": true}}
	fns := e.sourceFns(func(fn *ssa.Function, file string) bool {
		if fn.Parent() != nil {
			return false
		}
		ct := e.contractFor(fn, opts)
		return ct != nil && ct.hasCostClause()
	})
	assumed := map[string]bool{}
	post := func(fr *Frame, q *Query) {
		for k := range q.costAssumed {
			assumed[k] = true
		}
	}
	e.prepareExempt("C20", e.sourceFns(func(fn *ssa.Function, file string) bool {
		return fn.Parent() == nil && strings.HasPrefix(file, "pkg/sql/tokenizer/")
	}), opts)
	fns = e.sourceFns(func(fn *ssa.Function, file string) bool {
		if fn.Parent() != nil {
			return false
		}
		ct := e.contractFor(fn, opts)
		return ct != nil && ct.hasCostClause()
	})
	rs := e.verifyAll(fns, opts, post)
	var al []string
	for k := range assumed {
		al = append(al, k)
	}
	sort.Strings(al)
	return &PropRun{
		Results: rs, FUC: fucList(rs),
		Claim: func(o *Obligation) bool {
			// every obligation generated from a @C20 clause: the cost bounds themselves and the auxiliary clauses they
			// rest on (peak / look-ahead facts, cache monotonicity, the tagged preconditions at call sites)
			return o.Kind == "post" || o.Kind == "pre" || o.Kind == "inv-init" || o.Kind == "inv-pres"
		},
		Level:       "other",
		Explanation: "Cost contracts over a ghost step counter: one step per loop-header passage plus the assumed cost of library calls, concatenations and conversions. Every function under a cost contract is proved to spend at most a linear function of the bytes it consumes (cursor advance) plus a constant, or - on an error path, taken at most once per run - of the input length; the main loops of Tokenize / TokenizeContext carry the telescoped bound as an invariant, so a whole run is linear in len(input) (the line-table pre-scan is one pass). Position queries (toSQLPosition) are bounded by the distance from the previous query plus a binary search. The token conversion costs a constant per token plus four steps per byte of token text handed to the keyword re-typing functions (ghost accumulator acc(), fed by the `accrues` clause of convertSingleToken); the parser's dotted-name, type-parameter and mode-word builders cost a constant per token plus the length of the text built; the dollar-quote stripper of the scanner is one pass.",
		NotCovered:  []string{"the parser as a whole (recursive descent: cost per token consumed) - only its name / type-list / mode-word builders and the token conversion are under cost contracts; AST serialisation (the quadratic rendering of long operator chains was found by measurement and repaired, not proved); the AST-walking part of the security scanner", "allocation and garbage-collection cost; memory growth of append is taken as amortised constant per element", "the regular-expression passes of ScanSQL (RE2 matching is assumed linear)"},
		Assumptions: append([]string{"every instruction other than a loop back-edge, a call, a string concatenation or a string/byte conversion costs O(1) and is not counted", "clauses of the same contracts that belong to other properties (cursor invariant tz_ok, progress) are assumed here and discharged by the C01/C04 checks"}, al...),
	}
}
