package main

import (
	"encoding/json"
	"fmt"
	"os"
	"path/filepath"
	"sort"
	"strings"
	"sync"
	"time"

	"golang.org/x/tools/go/ssa"
)

// fnFile: repo-relative file of a function
func (e *Engine) fnFile(fn *ssa.Function) string {
	if !fn.Pos().IsValid() {
		return ""
	}
	f := e.Fset.Position(fn.Pos()).Filename
	rel, err := filepath.Rel(e.RepoDir, f)
	if err != nil {
		return f
	}
	return rel
}

// sourceFns: functions with bodies written in the repo (no synthetic wrappers, no generics instances), filtered
func (e *Engine) sourceFns(filter func(fn *ssa.Function, file string) bool) []*ssa.Function {
	var out []*ssa.Function
	for _, fn := range e.allFns {
		if fn.Blocks == nil || fn.Synthetic != "" || !e.inRepo(fn) {
			continue
		}
		file := e.fnFile(fn)
		if file == "" || strings.HasSuffix(file, "_test.go") {
			continue
		}
		if filter(fn, file) {
			out = append(out, fn)
		}
	}
	sort.Slice(out, func(i, j int) bool { return fnKey(out[i]) < fnKey(out[j]) })
	return out
}

// verifyAll generates VCs for many functions in parallel (VC generation itself is sequential per function;
// the engine's shared tables are guarded by one mutex).
var genMu sync.Mutex

func (e *Engine) verifyAll(fns []*ssa.Function, opts *VCOpts, post func(fr *Frame, q *Query)) []*FnResult {
	rs := make([]*FnResult, len(fns))
	var wg sync.WaitGroup
	sem := make(chan struct{}, 16)
	for i, fn := range fns {
		i, fn := i, fn
		wg.Add(1)
		go func() {
			defer wg.Done()
			sem <- struct{}{}
			defer func() { <-sem }()
			defer func() {
				if r := recover(); r != nil {
					if genLocked {
						genLocked = false
						genMu.Unlock()
					}
					rs[i] = &FnResult{Fn: fnKey(fn), Unsupported: []string{"generator panic: " + toString(r)}}
				}
			}()
			t0 := time.Now()
			rs[i] = e.verifyFn(fn, opts, post)
			if os.Getenv("GOVC_TRACE") != "" {
				fmt.Fprintf(os.Stderr, "gen %-60s %6.2fs obls=%d\n", fnKey(fn), time.Since(t0).Seconds(), len(rs[i].Obls))
			}
		}()
	}
	wg.Wait()
	return rs
}

var genLocked bool

func toString(r any) string {
	switch x := r.(type) {
	case error:
		return x.Error()
	case string:
		return x
	}
	return "panic"
}

func fucList(rs []*FnResult) []string {
	var out []string
	for _, r := range rs {
		out = append(out, r.Fn)
	}
	return out
}

// prepareExempt: a small, loop-free, non-recursive function that falls under a *default* contract, did not exist when
// the baseline was taken, and does not satisfy that default contract is a helper introduced by a refactoring (e.g. one
// that increments the depth on behalf of its caller). It is not reported; instead it loses the default contract, so its
// callers see its body (inlining) and must prove their own contracts with it.
// knownFunctions: the functions that existed when the baselines were taken (this check's baseline and the C01 sweep)
func knownFunctions(id string) map[string]bool {
	known := map[string]bool{}
	for _, bid := range []string{id, "C01"} {
		if b, err := os.ReadFile(filepath.Join(verifDir(), "baseline", bid+".json")); err == nil {
			var bf struct {
				Functions []string `json:"functions"`
			}
			json.Unmarshal(b, &bf)
			for _, f := range bf.Functions {
				known[f] = true
			}
		}
	}
	return known
}

func (e *Engine) prepareExempt(id string, fns []*ssa.Function, opts *VCOpts) {
	// functions that existed when the baselines were taken: those of this check's baseline and of the panic-freedom
	// sweep (C01), whose baseline lists every function of the packages under contract
	known := map[string]bool{}
	any := false
	for _, bid := range []string{id, "C01"} {
		if b, err := os.ReadFile(filepath.Join(verifDir(), "baseline", bid+".json")); err == nil {
			var bf struct {
				Functions []string `json:"functions"`
			}
			json.Unmarshal(b, &bf)
			for _, f := range bf.Functions {
				known[f] = true
				any = true
			}
		}
	}
	if !any {
		return // no function list recorded: nothing is "new"
	}
	if e.exempt == nil {
		e.exempt = map[string]bool{}
	}
	for _, fn := range fns {
		k := fnKey(fn)
		if known[k] || e.exempt[k] {
			continue
		}
		if _, explicit := e.Contracts[k]; explicit {
			continue
		}
		ct := e.contractFor(fn, opts)
		if ct == nil || !ct.Default {
			continue
		}
		n, loops, selfrec := 0, false, false
		for _, b := range fn.Blocks {
			n += len(b.Instrs)
			for _, s := range b.Succs {
				if s.Dominates(b) {
					loops = true
				}
			}
			for _, ins := range b.Instrs {
				if c, ok := ins.(ssa.CallInstruction); ok && c.Common().StaticCallee() == fn {
					selfrec = true
				}
			}
		}
		if n > 3000 || selfrec {
			continue
		}
		// does the new function meet the default contract? The untagged clauses always count; the clauses of the tag
		// group (or the cost clauses) the running check is about count as well
		bad := false
		variants := []VCOpts{*opts}
		variants[0].CheckTags, variants[0].Cost, variants[0].TrackReads = nil, false, nil
		if opts.CheckTags != nil || opts.Cost {
			variants = append(variants, *opts)
			variants[1].TrackReads = nil
		}
		for vi := range variants {
			o2 := variants[vi]
			o2.Safety = false
			r := e.verifyFn(fn, &o2, nil)
			initSem(16)
			dischargeFn(r, Tier{Name: "exempt", BatchMS: 2000, SingleS: 5, Parallel: 16})
			for _, o := range r.Obls {
				if o.Kind == "post" && o.Answer != "unsat" {
					bad = true
				}
				if loops && (o.Kind == "inv-init" || o.Kind == "inv-pres") && !strings.HasPrefix(o.Tag, "auto:") && o.Answer != "unsat" {
					bad = true
				}
			}
		}
		if bad {
			e.exempt[k] = true
			e.Exempted = append(e.Exempted, k)
			if loops {
				// a new helper with loops that does not meet the default contract of its package: it has no loop
				// invariants of its own, so what its callers can prove with it is limited by that, not by the code
				if e.exemptLoops == nil {
					e.exemptLoops = map[string]bool{}
				}
				e.exemptLoops[k] = true
			}
		}
	}
}
