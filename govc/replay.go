package main

// Counter-model -> Go test -> run against the real code with `go test -overlay` (DESIGN 1.6).

import (
	"bytes"
	"context"
	"encoding/json"
	"fmt"
	"go/types"
	"os"
	"os/exec"
	"path/filepath"
	"strconv"
	"strings"
	"time"

	"golang.org/x/tools/go/ssa"
)

// ---------- s-expressions ----------

type sx struct {
	atom string
	list []*sx
}

func parseSx(s string) []*sx {
	var out []*sx
	var stack [][]*sx
	cur := []*sx{}
	i := 0
	for i < len(s) {
		c := s[i]
		switch {
		case c == ';':
			for i < len(s) && s[i] != '\n' {
				i++
			}
		case c == '(':
			stack = append(stack, cur)
			cur = []*sx{}
			i++
		case c == ')':
			n := &sx{list: cur}
			if len(stack) == 0 {
				return out
			}
			cur = append(stack[len(stack)-1], n)
			stack = stack[:len(stack)-1]
			if len(stack) == 0 {
				out = append(out, cur...)
				cur = []*sx{}
			}
			i++
		case c == ' ' || c == '\n' || c == '\t' || c == '\r':
			i++
		case c == '|':
			j := i + 1
			for j < len(s) && s[j] != '|' {
				j++
			}
			cur = append(cur, &sx{atom: s[i+1 : j]})
			i = j + 1
		case c == '"':
			j := i + 1
			for j < len(s) && s[j] != '"' {
				j++
			}
			cur = append(cur, &sx{atom: s[i : j+1]})
			i = j + 1
		default:
			j := i
			for j < len(s) && !strings.ContainsRune("() \n\t\r", rune(s[j])) {
				j++
			}
			cur = append(cur, &sx{atom: s[i:j]})
			i = j
		}
	}
	return out
}

func (x *sx) String() string {
	if x.list == nil {
		return x.atom
	}
	var ps []string
	for _, e := range x.list {
		ps = append(ps, e.String())
	}
	return "(" + strings.Join(ps, " ") + ")"
}

// ---------- model ----------

type mfun struct {
	params []string
	body   *sx
}

type Model struct {
	funs map[string]*mfun
}

func parseModel(s string) *Model {
	m := &Model{funs: map[string]*mfun{}}
	top := parseSx(s)
	var defs []*sx
	for _, t := range top {
		if t.list != nil && len(t.list) > 0 && t.list[0].atom == "define-fun" {
			defs = append(defs, t)
		} else if t.list != nil {
			for _, d := range t.list {
				if d.list != nil && len(d.list) > 0 && d.list[0].atom == "define-fun" {
					defs = append(defs, d)
				}
			}
		}
	}
	for _, d := range defs {
		if len(d.list) < 5 {
			continue
		}
		f := &mfun{body: d.list[4]}
		for _, p := range d.list[2].list {
			if len(p.list) > 0 {
				f.params = append(f.params, p.list[0].atom)
			}
		}
		m.funs[d.list[1].atom] = f
	}
	return m
}

// mval: model value
type mval struct {
	kind string // int | bool | abs (abstract sort element / unknown) | arr
	i    int64
	b    bool
	s    string
	arr  *marr
}

type marr struct {
	def    *mval
	stores []struct {
		k mval
		v mval
	}
	lam    *sx // lambda body
	lamVar string
	env    map[string]mval
}

func (a *marr) get(m *Model, k mval) mval {
	for i := len(a.stores) - 1; i >= 0; i-- {
		if mvEq(a.stores[i].k, k) {
			return a.stores[i].v
		}
	}
	if a.lam != nil {
		env := map[string]mval{}
		for kk, v := range a.env {
			env[kk] = v
		}
		env[a.lamVar] = k
		return m.eval(a.lam, env, 0)
	}
	if a.def != nil {
		return *a.def
	}
	return mval{kind: "abs", s: "?"}
}

func mvEq(a, b mval) bool {
	if a.kind != b.kind {
		return false
	}
	switch a.kind {
	case "int":
		return a.i == b.i
	case "bool":
		return a.b == b.b
	}
	return a.s == b.s
}

func (m *Model) eval(x *sx, env map[string]mval, depth int) mval {
	if depth > 200 {
		return mval{kind: "abs", s: "?"}
	}
	if x.list == nil {
		a := x.atom
		if v, ok := env[a]; ok {
			return v
		}
		if a == "true" {
			return mval{kind: "bool", b: true}
		}
		if a == "false" {
			return mval{kind: "bool", b: false}
		}
		if n, err := strconv.ParseInt(a, 10, 64); err == nil {
			return mval{kind: "int", i: n}
		}
		if f, ok := m.funs[a]; ok && len(f.params) == 0 {
			return m.eval(f.body, map[string]mval{}, depth+1)
		}
		return mval{kind: "abs", s: a}
	}
	if len(x.list) == 0 {
		return mval{kind: "abs", s: "()"}
	}
	h := x.list[0]
	if h.list != nil {
		// ((as const (Array ..)) v)
		if len(h.list) == 3 && h.list[0].atom == "as" && h.list[1].atom == "const" {
			d := m.eval(x.list[1], env, depth+1)
			return mval{kind: "arr", arr: &marr{def: &d}}
		}
		// (as @Str_0 Str) handled below as atom-ish
		return mval{kind: "abs", s: x.String()}
	}
	args := x.list[1:]
	ev := func(i int) mval { return m.eval(args[i], env, depth+1) }
	switch h.atom {
	case "as":
		return mval{kind: "abs", s: args[0].String()}
	case "-":
		if len(args) == 1 {
			v := ev(0)
			return mval{kind: "int", i: -v.i}
		}
		r := ev(0).i
		for i := 1; i < len(args); i++ {
			r -= ev(i).i
		}
		return mval{kind: "int", i: r}
	case "+":
		var r int64
		for i := range args {
			r += ev(i).i
		}
		return mval{kind: "int", i: r}
	case "*":
		r := int64(1)
		for i := range args {
			r *= ev(i).i
		}
		return mval{kind: "int", i: r}
	case "div":
		a, b := ev(0).i, ev(1).i
		if b == 0 {
			return mval{kind: "int", i: 0}
		}
		q := a / b
		if a%b != 0 && (a < 0) {
			if b > 0 {
				q--
			} else {
				q++
			}
		}
		return mval{kind: "int", i: q}
	case "mod":
		a, b := ev(0).i, ev(1).i
		if b == 0 {
			return mval{kind: "int", i: 0}
		}
		r := a % b
		if r < 0 {
			if b > 0 {
				r += b
			} else {
				r -= b
			}
		}
		return mval{kind: "int", i: r}
	case "ite":
		if ev(0).b {
			return ev(1)
		}
		return ev(2)
	case "=":
		return mval{kind: "bool", b: mvEq(ev(0), ev(1))}
	case "distinct":
		return mval{kind: "bool", b: !mvEq(ev(0), ev(1))}
	case "<":
		return mval{kind: "bool", b: ev(0).i < ev(1).i}
	case "<=":
		return mval{kind: "bool", b: ev(0).i <= ev(1).i}
	case ">":
		return mval{kind: "bool", b: ev(0).i > ev(1).i}
	case ">=":
		return mval{kind: "bool", b: ev(0).i >= ev(1).i}
	case "and":
		for i := range args {
			if !ev(i).b {
				return mval{kind: "bool", b: false}
			}
		}
		return mval{kind: "bool", b: true}
	case "or":
		for i := range args {
			if ev(i).b {
				return mval{kind: "bool", b: true}
			}
		}
		return mval{kind: "bool", b: false}
	case "not":
		return mval{kind: "bool", b: !ev(0).b}
	case "=>":
		return mval{kind: "bool", b: !ev(0).b || ev(1).b}
	case "store":
		a := ev(0)
		if a.kind != "arr" {
			a = mval{kind: "arr", arr: &marr{}}
		}
		na := &marr{def: a.arr.def, lam: a.arr.lam, lamVar: a.arr.lamVar, env: a.arr.env}
		na.stores = append(na.stores, a.arr.stores...)
		na.stores = append(na.stores, struct{ k, v mval }{ev(1), ev(2)})
		return mval{kind: "arr", arr: na}
	case "select":
		a := ev(0)
		if a.kind != "arr" {
			return mval{kind: "abs", s: "?"}
		}
		return a.arr.get(m, ev(1))
	case "lambda":
		// (lambda ((x Int)) body)
		if len(args) == 2 && len(args[0].list) == 1 {
			e2 := map[string]mval{}
			for k, v := range env {
				e2[k] = v
			}
			return mval{kind: "arr", arr: &marr{lam: args[1], lamVar: args[0].list[0].list[0].atom, env: e2}}
		}
	case "let":
		e2 := map[string]mval{}
		for k, v := range env {
			e2[k] = v
		}
		for _, b := range args[0].list {
			e2[b.list[0].atom] = m.eval(b.list[1], env, depth+1)
		}
		return m.eval(args[1], e2, depth+1)
	case "_":
		// (_ as-array f)
		if len(args) == 2 && args[0].atom == "as-array" {
			if f, ok := m.funs[args[1].atom]; ok && len(f.params) == 1 {
				return mval{kind: "arr", arr: &marr{lam: f.body, lamVar: f.params[0], env: map[string]mval{}}}
			}
		}
	}
	if f, ok := m.funs[h.atom]; ok && len(f.params) == len(args) {
		e2 := map[string]mval{}
		for i, p := range f.params {
			e2[p] = ev(i)
		}
		return m.eval(f.body, e2, depth+1)
	}
	return mval{kind: "abs", s: x.String()}
}

func (m *Model) constant(name string) (mval, bool) {
	f, ok := m.funs[name]
	if !ok || len(f.params) != 0 {
		return mval{}, false
	}
	return m.eval(f.body, map[string]mval{}, 0), true
}

func (m *Model) apply(fn string, args ...mval) mval {
	f, ok := m.funs[fn]
	if !ok || len(f.params) != len(args) {
		return mval{kind: "abs", s: "?"}
	}
	env := map[string]mval{}
	for i, p := range f.params {
		env[p] = args[i]
	}
	return m.eval(f.body, env, 0)
}

// ---------- Go value synthesis ----------

type synth struct {
	m       *Model
	q       *Query
	pkg     *types.Package
	imports map[string]string
	budget  int
	fail    string
}

func (s *synth) qual(p *types.Package) string {
	if p == s.pkg {
		return ""
	}
	s.imports[p.Path()] = p.Name()
	return p.Name()
}

func (s *synth) typeStr(t types.Type) string { return types.TypeString(t, s.qual) }

func (s *synth) heapAt(fam string, addr int64) mval {
	// initial version of the family: <sym>@e0
	name := smtSym(fam) + "@e0"
	a, ok := s.m.constant(name)
	if !ok || a.kind != "arr" {
		return mval{kind: "abs", s: "?"}
	}
	return a.arr.get(s.m, mval{kind: "int", i: addr})
}

func (s *synth) strLit(v mval) string {
	n := s.m.apply("slen", v)
	ln := n.i
	if n.kind != "int" || ln < 0 {
		ln = 0
	}
	if ln > 4096 {
		s.fail = "string too long in model"
		return `""`
	}
	b := make([]byte, ln)
	for i := int64(0); i < ln; i++ {
		c := s.m.apply("sat", v, mval{kind: "int", i: i})
		if c.kind == "int" && c.i >= 0 && c.i < 256 {
			b[i] = byte(c.i)
		} else {
			b[i] = 'a'
		}
	}
	return strconv.Quote(string(b))
}

// build a Go expression for a value of type t whose leaves are given as model values
func (s *synth) build(t types.Type, leaves []mval, depth int) string {
	s.budget--
	if s.budget < 0 || depth > 6 {
		s.fail = "value too large"
		return "nil"
	}
	switch u := underlying(t).(type) {
	case *types.Basic:
		lv := leaves[0]
		switch {
		case u.Info()&types.IsBoolean != 0:
			return fmt.Sprintf("%s(%v)", s.typeStr(t), lv.b)
		case u.Info()&types.IsInteger != 0:
			return fmt.Sprintf("%s(%d)", s.typeStr(t), lv.i)
		case u.Info()&types.IsString != 0:
			return fmt.Sprintf("%s(%s)", s.typeStr(t), s.strLit(lv))
		case u.Info()&types.IsFloat != 0:
			return fmt.Sprintf("%s(0)", s.typeStr(t))
		}
	case *types.Slice:
		ptr, ln, cp := leaves[0].i, leaves[1].i, leaves[2].i
		if ptr == 0 && ln == 0 {
			return fmt.Sprintf("%s(nil)", s.typeStr(t))
		}
		if ln < 0 || ln > 2048 || cp > 1<<16 {
			s.fail = "slice too long in model"
			return "nil"
		}
		stride := int64(cellsOf(u.Elem()))
		var elems []string
		for i := int64(0); i < ln; i++ {
			elems = append(elems, s.fromMemory(u.Elem(), ptr+i*stride, depth+1))
		}
		lit := fmt.Sprintf("%s{%s}", s.typeStr(t), strings.Join(elems, ", "))
		if cp > ln {
			return fmt.Sprintf("append(make(%s, 0, %d), %s...)", s.typeStr(t), cp, lit)
		}
		return lit
	case *types.Struct:
		off := 0
		var fs []string
		for i := 0; i < u.NumFields(); i++ {
			f := u.Field(i)
			n := len(layoutOf(f.Type()).leaves)
			fs = append(fs, f.Name()+": "+s.build(f.Type(), leaves[off:off+n], depth+1))
			off += n
		}
		return fmt.Sprintf("%s{%s}", s.typeStr(t), strings.Join(fs, ", "))
	case *types.Pointer:
		p := leaves[0].i
		if p == 0 {
			return fmt.Sprintf("(%s)(nil)", s.typeStr(t))
		}
		if _, ok := underlying(u.Elem()).(*types.Struct); ok {
			v := s.fromMemory(u.Elem(), p, depth+1)
			return "&" + v
		}
		s.fail = "pointer to non-struct"
		return "nil"
	case *types.Interface:
		if leaves[0].i == 0 {
			return fmt.Sprintf("%s(nil)", s.typeStr(t))
		}
		s.fail = "non-nil interface value in model"
		return "nil"
	case *types.Map:
		if leaves[0].i == 0 {
			return fmt.Sprintf("%s(nil)", s.typeStr(t))
		}
		return fmt.Sprintf("%s{}", s.typeStr(t))
	}
	s.fail = "unsupported type " + t.String()
	return "nil"
}

func (s *synth) fromMemory(t types.Type, addr int64, depth int) string {
	l := layoutOf(t)
	leaves := make([]mval, len(l.leaves))
	for i, lf := range l.leaves {
		v := s.heapAt(lf.Arr, addr+int64(lf.Off))
		if v.kind == "abs" && lf.Sort != "Str" {
			v = mval{kind: "int", i: 0}
			if lf.Sort == "Bool" {
				v = mval{kind: "bool"}
			}
		}
		leaves[i] = v
	}
	return s.build(t, leaves, depth)
}

// genericReplay: call the function under contract with the model's arguments; a panic is the failure.
func genericReplay(e *Engine, r *FnResult, o *Obligation) *ReplaySpec {
	fn := r.frame.fn
	if fn.Parent() != nil || fn.Pkg == nil {
		return nil
	}
	switch o.Kind {
	case "idx", "slice", "nil", "assert", "div", "panic", "makeslice":
	default:
		return nil
	}
	m := parseModel(o.Model)
	s := &synth{m: m, q: r.query, pkg: fn.Pkg.Pkg, imports: map[string]string{}, budget: 4000}
	var args []string
	var recvExpr string
	for i, p := range fn.Params {
		l := layoutOf(p.Type())
		leaves := make([]mval, len(l.leaves))
		for k, lf := range l.leaves {
			n := "arg_" + sanitize(p.Name())
			if lf.Path != "" {
				n += "." + sanitize(strings.ReplaceAll(lf.Path, "#", "."))
			}
			v, ok := m.constant(n)
			if !ok {
				v = mval{kind: "int"}
				if lf.Sort == "Bool" {
					v = mval{kind: "bool"}
				}
				if lf.Sort == "Str" {
					v = mval{kind: "abs", s: "?"}
				}
			}
			leaves[k] = v
		}
		ex := s.build(p.Type(), leaves, 0)
		if i == 0 && fn.Signature.Recv() != nil {
			recvExpr = ex
		} else {
			args = append(args, ex)
		}
	}
	if s.fail != "" {
		return nil
	}
	call := fn.Name() + "(" + strings.Join(args, ", ") + ")"
	if recvExpr != "" {
		call = "(" + recvExpr + ")." + call
	}
	var imp strings.Builder
	imp.WriteString("import \"testing\"\nimport \"runtime/debug\"\n")
	for path, name := range s.imports {
		fmt.Fprintf(&imp, "import %s %q\n", name, path)
	}
	name := "TestGovcReplay"
	src := fmt.Sprintf(`package %s

%s
// replay of obligation %s
func %s(t *testing.T) {
	defer func() {
		if r := recover(); r != nil {
			t.Fatalf("GOVC-REPLAY panic: %%v\n%%s", r, debug.Stack())
		}
	}()
	%s
}
`, fn.Pkg.Pkg.Name(), imp.String(), o.Name, name, call)
	rel, _ := filepath.Rel(e.RepoDir, filepath.Dir(e.Fset.Position(fn.Pos()).Filename))
	// the panic must come from the instruction the obligation is about (same file:line in the stack trace)
	return &ReplaySpec{PkgDir: rel, TestName: name, Source: src, Expect: "panic", MustContain: strings.TrimPrefix(o.Pos, "")}
}

// runReplay injects the test with -overlay and runs it against the real code.
func runReplay(e *Engine, spec *ReplaySpec) (string, bool) {
	dir := filepath.Join(scratch(), fmt.Sprintf("replay%d", time.Now().UnixNano()))
	os.MkdirAll(dir, 0o755)
	defer os.RemoveAll(dir)
	tf := filepath.Join(dir, "zz_govc_replay_test.go")
	os.WriteFile(tf, []byte(spec.Source), 0o644)
	ov := map[string]any{"Replace": map[string]string{filepath.Join(e.RepoDir, spec.PkgDir, "zz_govc_replay_test.go"): tf}}
	ob, _ := json.Marshal(ov)
	of := filepath.Join(dir, "overlay.json")
	os.WriteFile(of, ob, 0o644)
	ctx, cancel := context.WithTimeout(context.Background(), 180*time.Second)
	defer cancel()
	cmd := exec.CommandContext(ctx, "bash", "-c", fmt.Sprintf("ulimit -v 8000000; cd %s && go test -overlay %s -vet=off -count=1 -timeout 60s -run '^%s$' ./%s", e.RepoDir, of, spec.TestName, spec.PkgDir))
	cmd.Env = append(os.Environ(), "GOFLAGS=-mod=mod", "GOPROXY=off", "GOSUMDB=off", "GOTOOLCHAIN=local")
	var out bytes.Buffer
	cmd.Stdout = &out
	cmd.Stderr = &out
	err := cmd.Run()
	s := out.String()
	if len(s) > 6000 {
		s = s[:6000]
	}
	failed := err != nil && (strings.Contains(s, "GOVC-REPLAY") || strings.Contains(s, "--- FAIL") || strings.Contains(s, "panic:") || strings.Contains(s, "fatal error"))
	if strings.Contains(s, "[build failed]") || strings.Contains(s, "[setup failed]") {
		failed = false
	}
	if failed && spec.MustContain != "" && spec.MustContain != "?" {
		// file:line of the obligation, as it appears in a Go stack trace (path suffix)
		if !strings.Contains(s, spec.MustContain+" ") && !strings.Contains(s, spec.MustContain+"\n") {
			failed = false
		}
	}
	return s, failed
}

var _ = ssa.GlobalDebug
