package main

// Witness synthesis for schema obligations (DESIGN 1.6 item 2): the failing instance names a type and a field, so a
// concrete history that exhibits it can be generated mechanically and run against the real code.

import (
	"fmt"
	"regexp"
	"strings"
)

const reflectHelpers = `
func govcSetNonZero(v reflect.Value) bool {
	if !v.CanSet() {
		v = reflect.NewAt(v.Type(), unsafe.Pointer(v.UnsafeAddr())).Elem()
	}
	switch v.Kind() {
	case reflect.Bool:
		v.SetBool(true)
	case reflect.Int, reflect.Int8, reflect.Int16, reflect.Int32, reflect.Int64:
		v.SetInt(7)
	case reflect.Uint, reflect.Uint8, reflect.Uint16, reflect.Uint32, reflect.Uint64:
		v.SetUint(7)
	case reflect.String:
		v.SetString("govc-stale")
	case reflect.Slice:
		v.Set(reflect.MakeSlice(v.Type(), 1, 1))
	case reflect.Ptr:
		v.Set(reflect.New(v.Type().Elem()))
	case reflect.Map:
		v.Set(reflect.MakeMap(v.Type()))
	case reflect.Struct:
		for i := 0; i < v.NumField(); i++ {
			if govcSetNonZero(v.Field(i)) {
				return true
			}
		}
		return false
	default:
		return false
	}
	return true
}

func govcField(v reflect.Value, path string) reflect.Value {
	for _, p := range strings.Split(path, ".") {
		for v.Kind() == reflect.Ptr {
			v = v.Elem()
		}
		v = v.FieldByName(p)
	}
	return v
}

func govcIsClean(v reflect.Value) bool {
	if !v.CanInterface() {
		v = reflect.NewAt(v.Type(), unsafe.Pointer(v.UnsafeAddr())).Elem()
	}
	if v.Kind() == reflect.Slice {
		return v.Len() == 0
	}
	return v.IsZero()
}
`

var poolCleanRe = regexp.MustCompile(`/schema/pool_clean\(([A-Za-z0-9_]+):sql_ast\.([A-Za-z0-9_]+)\.([A-Za-z0-9_.]+)\)`)
var freshRe = regexp.MustCompile(`/schema/fresh\(sql_(parser|tokenizer)\.(Parser|Tokenizer)\.([A-Za-z0-9_.#]+)\)`)

// schemaReplay builds a test for pool_clean / fresh instances; nil when the obligation is of another shape.
func schemaReplay(o *Obligation) *ReplaySpec {
	if m := poolCleanRe.FindStringSubmatch(o.Name); m != nil {
		pool, typ, field := m[1], m[2], m[3]
		fn := o.Fn[strings.LastIndex(o.Fn, ".")+1:]
		arg := "x"
		src := fmt.Sprintf(`package ast

import (
	"reflect"
	"strings"
	"testing"
	"unsafe"
)
%s
// replay of obligation %s:
// populate %s.%s, release the node through %s, take nodes from %s until the same one comes back, inspect the field.
func TestGovcReplay(t *testing.T) {
	_ = strings.Split
	x := &%s{}
	if !govcSetNonZero(govcField(reflect.ValueOf(x), %q)) {
		t.Skip("cannot populate the field")
	}
	%s(%s)
	for i := 0; i < 8; i++ {
		y, ok := %s.Get().(*%s)
		if !ok {
			continue
		}
		if y == x {
			if !govcIsClean(govcField(reflect.ValueOf(y), %q)) {
				t.Fatalf("GOVC-REPLAY node taken from %s still carries %s.%s of the statement released before")
			}
			return
		}
	}
	t.Skip("the pool did not hand the same node back on this goroutine")
}
`, reflectHelpers, o.Name, typ, field, fn, pool, typ, field, fn, arg, pool, typ, field, pool, typ, field)
		return &ReplaySpec{PkgDir: "pkg/sql/ast", TestName: "TestGovcReplay", Source: src, Expect: "fail"}
	}
	if m := freshRe.FindStringSubmatch(o.Name); m != nil {
		pkg, typ, field := m[1], m[2], m[3]
		field = strings.Split(field, "#")[0]
		get, put := "GetParser", "PutParser"
		if typ == "Tokenizer" {
			get, put = "GetTokenizer", "PutTokenizer"
		}
		src := fmt.Sprintf(`package %s

import (
	"reflect"
	"strings"
	"testing"
	"unsafe"
)
%s
// replay of obligation %s:
// a holder leaves %s.%s set, returns the instance to the pool; the next holder inspects what it gets.
func TestGovcReplay(t *testing.T) {
	_ = strings.Split
	x := %s()
	fresh := govcField(reflect.ValueOf(x), %q)
	before := reflect.NewAt(fresh.Type(), unsafe.Pointer(fresh.UnsafeAddr())).Elem().Interface()
	if !govcSetNonZero(fresh) {
		t.Skip("cannot populate the field")
	}
	%s(x)
	for i := 0; i < 8; i++ {
		y := %s()
		if y == x {
			f := govcField(reflect.ValueOf(y), %q)
			now := reflect.NewAt(f.Type(), unsafe.Pointer(f.UnsafeAddr())).Elem().Interface()
			if !reflect.DeepEqual(now, before) {
				t.Fatalf("GOVC-REPLAY instance taken from the pool carries %s.%s = %%v left by the previous holder (fresh value: %%v)", now, before)
			}
			return
		}
	}
	t.Skip("the pool did not hand the same instance back on this goroutine")
}
`, pkg, reflectHelpers, o.Name, typ, field, get, field, put, get, field, typ, field)
		return &ReplaySpec{PkgDir: "pkg/sql/" + pkg, TestName: "TestGovcReplay", Source: src, Expect: "fail"}
	}
	return nil
}
