package main

import (
	"bytes"
	"context"
	"fmt"
	"os"
	"os/exec"
	"path/filepath"
	"strings"
	"sync"
	"time"
)

// ---------- term helpers ----------

func sAnd(xs ...string) string {
	var ys []string
	for _, x := range xs {
		if x == "true" || x == "" {
			continue
		}
		if x == "false" {
			return "false"
		}
		ys = append(ys, x)
	}
	switch len(ys) {
	case 0:
		return "true"
	case 1:
		return ys[0]
	}
	return "(and " + strings.Join(ys, " ") + ")"
}

func sOr(xs ...string) string {
	var ys []string
	for _, x := range xs {
		if x == "false" || x == "" {
			continue
		}
		if x == "true" {
			return "true"
		}
		ys = append(ys, x)
	}
	switch len(ys) {
	case 0:
		return "false"
	case 1:
		return ys[0]
	}
	return "(or " + strings.Join(ys, " ") + ")"
}

func sNot(x string) string {
	switch x {
	case "true":
		return "false"
	case "false":
		return "true"
	}
	if strings.HasPrefix(x, "(not ") && strings.HasSuffix(x, ")") && balanced(x[5:len(x)-1]) {
		return x[5 : len(x)-1]
	}
	return "(not " + x + ")"
}

func balanced(s string) bool {
	d := 0
	for i, c := range s {
		if c == '(' {
			d++
		} else if c == ')' {
			d--
			if d == 0 && i != len(s)-1 && s[0] == '(' {
				return false
			}
			if d < 0 {
				return false
			}
		} else if d == 0 && (c == ' ') {
			return false
		}
	}
	return d == 0
}

func sImp(a, b string) string {
	if a == "true" {
		return b
	}
	if a == "false" || b == "true" {
		return "true"
	}
	return "(=> " + a + " " + b + ")"
}

func sIte(c, a, b string) string {
	if c == "true" {
		return a
	}
	if c == "false" {
		return b
	}
	if a == b {
		return a
	}
	return "(ite " + c + " " + a + " " + b + ")"
}

func sEq(a, b string) string {
	if a == b {
		return "true"
	}
	return "(= " + a + " " + b + ")"
}

func sAdd(a, b string) string {
	if a == "0" {
		return b
	}
	if b == "0" {
		return a
	}
	return "(+ " + a + " " + b + ")"
}

func sInt(n int64) string {
	if n < 0 {
		return fmt.Sprintf("(- %d)", -n)
	}
	return fmt.Sprintf("%d", n)
}

func sMulC(a string, c int) string {
	if c == 1 {
		return a
	}
	if a == "0" || c == 0 {
		return "0"
	}
	return fmt.Sprintf("(* %d %s)", c, a)
}

// ---------- solver racing ----------

type SolverResult struct {
	Answer  string // unsat | sat | unknown | timeout | error
	Solver  string
	Seconds float64
	Model   string
	Raw     string
	All     map[string]string // per solver answer (thorough tier)
}

type solverSpec struct {
	name string
	args func(file string, timeoutS int, seed int) []string
	bin  string
}

var solvers = []solverSpec{
	{name: "z3-new-5.1.0", bin: "z3-new", args: func(f string, t int, seed int) []string {
		return []string{"-smt2", fmt.Sprintf("-T:%d", t), fmt.Sprintf("smt.random_seed=%d", seed), f}
	}},
	{name: "z3-4.8.12", bin: "/usr/bin/z3", args: func(f string, t int, seed int) []string {
		return []string{"-smt2", fmt.Sprintf("-T:%d", t), fmt.Sprintf("smt.random_seed=%d", seed), f}
	}},
	{name: "cvc5-1.0", bin: "cvc5", args: func(f string, t int, seed int) []string {
		return []string{"--lang=smt2", fmt.Sprintf("--tlimit=%d", t*1000), fmt.Sprintf("--seed=%d", seed), f}
	}},
}

var scratchDir string
var scratchOnce sync.Once

func scratch() string {
	scratchOnce.Do(func() {
		d, err := os.MkdirTemp("", "govc-")
		if err != nil {
			panic(err)
		}
		scratchDir = d
	})
	return scratchDir
}

func cleanupScratch() {
	if scratchDir != "" {
		os.RemoveAll(scratchDir)
	}
}

var fileCounter int
var fileMu sync.Mutex

func classify(out string) string {
	line := strings.TrimSpace(out)
	if i := strings.IndexByte(line, '\n'); i >= 0 {
		line = strings.TrimSpace(line[:i])
	}
	switch {
	case line == "unsat":
		return "unsat"
	case line == "sat":
		return "sat"
	case line == "unknown":
		return "unknown"
	case strings.Contains(line, "timeout"), strings.Contains(out, "timeout"):
		return "timeout"
	case strings.Contains(out, "interrupted"):
		return "timeout"
	}
	return "error"
}

func runOne(ctx context.Context, sp solverSpec, file string, timeoutS int, seed int) (string, string, float64) {
	t0 := time.Now()
	cctx, cancel := context.WithTimeout(ctx, time.Duration(timeoutS+2)*time.Second)
	defer cancel()
	cmd := exec.CommandContext(cctx, sp.bin, sp.args(file, timeoutS, seed)...)
	var out bytes.Buffer
	cmd.Stdout = &out
	cmd.Stderr = &out
	cmd.Run()
	s := out.String()
	ans := classify(s)
	if cctx.Err() != nil && ans == "error" {
		ans = "timeout"
	}
	return ans, s, time.Since(t0).Seconds()
}

// solve races the solvers on one query (query must end with (check-sat) (get-model)).
// needAll: run all solvers to completion and record each answer (thorough tier cross-confirmation).
func solve(query string, timeoutS int, seed int, needAll bool) SolverResult {
	fileMu.Lock()
	fileCounter++
	n := fileCounter
	fileMu.Unlock()
	base := filepath.Join(scratch(), fmt.Sprintf("q%d", n))
	// cvc5 wants produce-models before set-logic: our prelude does that already.
	if err := os.WriteFile(base+".smt2", []byte(query), 0o644); err != nil {
		return SolverResult{Answer: "error", Raw: err.Error()}
	}
	defer os.Remove(base + ".smt2")
	ctx, cancel := context.WithCancel(context.Background())
	defer cancel()
	type r struct {
		ans, raw, name string
		sec            float64
	}
	ch := make(chan r, len(solvers))
	for _, sp := range solvers {
		sp := sp
		go func() {
			a, raw, sec := runOne(ctx, sp, base+".smt2", timeoutS, seed)
			ch <- r{a, raw, sp.name, sec}
		}()
	}
	res := SolverResult{Answer: "timeout", All: map[string]string{}}
	got := 0
	var first *r
	for got < len(solvers) {
		x := <-ch
		got++
		res.All[x.name] = x.ans
		if x.ans == "unsat" || x.ans == "sat" {
			if first == nil {
				xx := x
				first = &xx
				if !needAll {
					cancel()
					break
				}
			} else if first.ans != x.ans {
				// solvers disagree: report as error, never as discharged
				res.Answer = "error"
				res.Raw = fmt.Sprintf("solver disagreement: %s=%s %s=%s", first.name, first.ans, x.name, x.ans)
				return res
			}
		} else if first == nil {
			if x.ans == "unknown" || res.Answer == "timeout" {
				if !(res.Answer == "unknown" && x.ans != "unknown") {
					res.Answer = x.ans
				}
				res.Raw = x.raw
				res.Solver = x.name
				res.Seconds = x.sec
			}
		}
	}
	if first != nil {
		res.Answer = first.ans
		res.Solver = first.name
		res.Seconds = first.sec
		res.Raw = first.raw
		if first.ans == "sat" {
			if i := strings.Index(first.raw, "\n"); i >= 0 {
				res.Model = first.raw[i+1:]
			}
		}
	}
	if len(res.Raw) > 20000 {
		res.Raw = res.Raw[:20000]
	}
	return res
}

const smtPreludeFull = `(set-option :produce-models true)
(set-logic ALL)
(declare-sort Str 0)
(declare-fun slen (Str) Int)
(declare-fun sat (Str Int) Int)
(declare-fun ssub (Str Int Int) Str)
(declare-fun scat (Str Str) Str)
(declare-fun sbox (Str) Int)
(declare-fun sunbox (Int) Str)
(declare-const str_empty Str)
(assert (= (slen str_empty) 0))
(assert (forall ((s Str)) (! (>= (slen s) 0) :pattern ((slen s)))))
(assert (forall ((s Str)) (! (= (sunbox (sbox s)) s) :pattern ((sbox s)))))
(assert (forall ((s Str) (i Int)) (! (and (<= 0 (sat s i)) (<= (sat s i) 255)) :pattern ((sat s i)))))
(assert (forall ((s Str) (a Int) (b Int)) (! (=> (and (<= 0 a) (<= a b) (<= b (slen s))) (= (slen (ssub s a b)) (- b a))) :pattern ((ssub s a b)))))
(assert (forall ((s Str) (a Int) (b Int) (i Int)) (! (=> (and (<= 0 a) (<= 0 i) (< i (- b a)) (<= b (slen s))) (= (sat (ssub s a b) i) (sat s (+ a i)))) :pattern ((sat (ssub s a b) i)))))
(assert (forall ((a Str) (b Str)) (! (= (slen (scat a b)) (+ (slen a) (slen b))) :pattern ((scat a b)))))
(assert (forall ((a Str) (b Str) (i Int)) (! (=> (<= 0 i) (= (sat (scat a b) i) (ite (< i (slen a)) (sat a i) (sat b (- i (slen a)))))) :pattern ((sat (scat a b) i)))))
(define-fun-rec sumlen1 ((h (Array Int Str)) (p Int) (k Int)) Int (ite (<= k 0) 0 (+ (sumlen1 h p (- k 1)) (slen (select h (+ p (- k 1)))) 1)))
(define-fun goDiv ((a Int) (b Int)) Int (ite (>= a 0) (ite (> b 0) (div a b) (- (div a (- b)))) (ite (> b 0) (- (div (- a) b)) (div (- a) (- b)))))
(define-fun goMod ((a Int) (b Int)) Int (- a (* b (goDiv a b))))
`

var smtPrelude = smtPreludeFull

// smtPreludeLite: the prelude without quantified axioms (used only to obtain candidate counter-models,
// which are then replayed against the real code; never used to discharge an obligation).
var smtPreludeLite = func() string {
	var b strings.Builder
	for _, l := range strings.Split(smtPreludeFull, "\n") {
		if strings.Contains(l, "(forall ") {
			continue
		}
		b.WriteString(l)
		b.WriteByte('\n')
	}
	return b.String()
}()
