package main

// Contracts: Gobra-style //@ comment lines in comment-only files guarded by the
// build tag `verif` inside /repo (DESIGN 1.2), and the evaluator that turns
// spec expressions (Go expression syntax + old/forall/implies/...) into SMT.

import (
	"fmt"
	"go/ast"
	"go/constant"
	"go/parser"
	"go/token"
	"go/types"
	"os"
	"path/filepath"
	"regexp"
	"strconv"
	"strings"

	"golang.org/x/tools/go/ssa"
)

type Clause struct {
	Expr      ast.Expr
	Text      string
	Src       string
	Auto      bool
	Inherited bool   // copied from a default contract: not applicable to every signature
	Tag       string // property group that checks this clause (empty: the structural group)
}

type LoopSpec struct {
	Invariants []Clause
	Decreases  *Clause
}

type Contract struct {
	Key         string
	PkgPath     string
	Requires    []Clause
	Ensures     []Clause
	Loops       map[int]*LoopSpec
	Accrues     []Clause
	Modifies    *ModSet
	modifiesSrc []string
	Decreases   *Clause
	Trusted     bool
	Auto        bool
	File        string
	Default     bool
	Except      []string
	OnUse       func(fr *Frame, callee *ssa.Function, args []Val, res Val, pre *State)
}

// RGSpec: rely/guarantee discipline of one shared cell updated with sync/atomic (DESIGN 4.10)
type RGSpec struct {
	Name      string
	Guarantee Clause // over old, new: every atomic update made by any thread satisfies it
	Rely      Clause // over old, new: what other threads may have done between two of this thread's steps
}

type PredDef struct {
	Name    string
	Params  []string
	PTypes  []string // type expressions (source text), resolved lazily in the defining package
	Body    ast.Expr
	PkgPath string
}

type SpecFn struct {
	Name    string
	Args    []string
	Ret     string
	Defined bool
}

// splitTop splits at commas that are not nested in parentheses
func splitTop(s string) []string {
	var out []string
	d, last := 0, 0
	for i, c := range s {
		switch c {
		case '(':
			d++
		case ')':
			d--
		case ',':
			if d == 0 {
				out = append(out, s[last:i])
				last = i + 1
			}
		}
	}
	if strings.TrimSpace(s[last:]) != "" {
		out = append(out, s[last:])
	}
	return out
}

var ws = regexp.MustCompile(`\s+`)

func normText(s string) string {
	s = ws.ReplaceAllString(strings.TrimSpace(s), " ")
	if len(s) > 90 {
		s = s[:90]
	}
	return s
}

func parseClause(s string) (Clause, error) {
	s = strings.TrimSpace(s)
	tag := ""
	if strings.HasPrefix(s, "@") {
		i := strings.IndexAny(s, " \t")
		if i > 0 {
			tag = s[1:i]
			s = strings.TrimSpace(s[i+1:])
		}
	}
	c, err := parseClause0(s)
	c.Tag = tag
	return c, err
}

func parseClause0(s string) (Clause, error) {
	e, err := parser.ParseExpr(s)
	if err != nil {
		return Clause{}, fmt.Errorf("cannot parse %q: %v", s, err)
	}
	return Clause{Expr: e, Text: normText(s), Src: s}, nil
}

func (e *Engine) loadContracts() error {
	var files []string
	filepath.Walk(e.RepoDir, func(p string, info os.FileInfo, err error) error {
		if err != nil {
			return nil
		}
		if info.IsDir() && (info.Name() == ".git" || info.Name() == "node_modules" || info.Name() == "vscode-extension") {
			return filepath.SkipDir
		}
		if strings.HasSuffix(p, "_verif.go") {
			files = append(files, p)
		}
		return nil
	})
	for _, f := range files {
		if err := e.loadContractFile(f); err != nil {
			return fmt.Errorf("%s: %v", f, err)
		}
	}
	e.ContractFiles = files
	return nil
}

func (e *Engine) loadContractFile(path string) error {
	src, err := os.ReadFile(path)
	if err != nil {
		return err
	}
	fs := token.NewFileSet()
	af, err := parser.ParseFile(fs, path, src, parser.ParseComments)
	if err != nil {
		return err
	}
	if len(af.Decls) != 0 {
		return fmt.Errorf("contract file must contain no declarations (comment-only), found %d", len(af.Decls))
	}
	if !strings.Contains(string(src), "//go:build verif") {
		return fmt.Errorf("contract file lacks the //go:build verif guard")
	}
	rel, _ := filepath.Rel(e.RepoDir, filepath.Dir(path))
	pkgPath := modPath + "/" + filepath.ToSlash(rel)
	short := strings.TrimPrefix(strings.TrimPrefix(pkgPath, modPath+"/"), "pkg/")
	var cur *Contract
	lines := strings.Split(string(src), "\n")
	// join continuation lines: a line "//@ ..." followed by "//@+ ..." continues
	var specLines []string
	for _, l := range lines {
		t := strings.TrimSpace(l)
		if strings.HasPrefix(t, "//@+") {
			if len(specLines) > 0 {
				specLines[len(specLines)-1] += " " + strings.TrimSpace(t[4:])
			}
			continue
		}
		if strings.HasPrefix(t, "//@") {
			specLines = append(specLines, strings.TrimSpace(t[3:]))
		}
	}
	for _, l := range specLines {
		if i := strings.Index(l, " //"); i >= 0 {
			l = strings.TrimSpace(l[:i])
		}
		if l == "" {
			continue
		}
		word, rest := l, ""
		if i := strings.IndexAny(l, " \t"); i >= 0 {
			word, rest = l[:i], strings.TrimSpace(l[i+1:])
		}
		switch word {
		case "func":
			key := short + "." + rest
			cur = &Contract{Key: key, PkgPath: pkgPath, Loops: map[int]*LoopSpec{}, File: path}
			if strings.HasSuffix(key, "*") {
				// default contract for every function whose key has this prefix and has no written contract
				cur.Default = true
				e.Defaults = append(e.Defaults, cur)
				break
			}
			if _, dup := e.Contracts[key]; dup {
				return fmt.Errorf("duplicate contract for %s", key)
			}
			e.Contracts[key] = cur
		case "except":
			if cur == nil || !cur.Default {
				return fmt.Errorf("except outside a default contract: %s", l)
			}
			for _, it := range strings.Split(rest, ",") {
				cur.Except = append(cur.Except, short+"."+strings.TrimSpace(it))
			}
		case "pred":
			// pred name(a T, b U) = body
			m := regexp.MustCompile(`^(\w+)\((.*?)\)\s*=\s*(.*)$`).FindStringSubmatch(rest)
			if m == nil {
				return fmt.Errorf("bad pred: %s", l)
			}
			pd := &PredDef{Name: m[1], PkgPath: pkgPath}
			if strings.TrimSpace(m[2]) != "" {
				for _, p := range strings.Split(m[2], ",") {
					p = strings.TrimSpace(p)
					i := strings.IndexAny(p, " \t")
					if i < 0 {
						pd.Params = append(pd.Params, p)
						pd.PTypes = append(pd.PTypes, "")
					} else {
						pd.Params = append(pd.Params, p[:i])
						pd.PTypes = append(pd.PTypes, strings.TrimSpace(p[i+1:]))
					}
				}
			}
			c, err := parseClause(m[3])
			if err != nil {
				return err
			}
			pd.Body = c.Expr
			e.Preds[pd.Name] = pd
		case "specfn":
			m := regexp.MustCompile(`^(\w+)\((.*?)\)\s*(\w+)$`).FindStringSubmatch(rest)
			if m == nil {
				return fmt.Errorf("bad specfn: %s", l)
			}
			sf := &SpecFn{Name: m[1], Ret: m[3]}
			if strings.TrimSpace(m[2]) != "" {
				for _, a := range strings.Split(m[2], ",") {
					sf.Args = append(sf.Args, strings.TrimSpace(a))
				}
			}
			e.SpecFns[sf.Name] = sf
		case "axiom":
			e.Axioms = append(e.Axioms, rest)
		case "cursor":
			// cursor T.path: the integer field that is the read cursor of T (cost mode: peak() is the largest value
			// it took during a call, i.e. the furthest byte looked at)
			i := strings.Index(rest, ".")
			if i < 0 {
				return fmt.Errorf("bad cursor: %s", l)
			}
			t, err := e.resolveType(pkgPath, rest[:i])
			if err != nil {
				return err
			}
			if e.Cursors == nil {
				e.Cursors = map[int]string{}
			}
			e.Cursors[typeID(t)] = strings.TrimSpace(rest[i+1:])
		case "rg":
			// rg T.f guarantee <expr over old,new> rely <expr over old,new>
			m := regexp.MustCompile(`^(\S+)\s+guarantee\s+(.*?)\s+rely\s+(.*)$`).FindStringSubmatch(rest)
			if m == nil {
				return fmt.Errorf("bad rg: %s", l)
			}
			i := strings.LastIndex(m[1], ".")
			t, err := e.resolveType(pkgPath, m[1][:i])
			if err != nil {
				return err
			}
			fam := ""
			for _, lf := range layoutOf(t).leaves {
				if lf.Path == m[1][i+1:] {
					fam = lf.Arr
				}
			}
			if fam == "" {
				return fmt.Errorf("rg: no field %s", m[1])
			}
			g, err := parseClause(m[2])
			if err != nil {
				return err
			}
			r, err := parseClause(m[3])
			if err != nil {
				return err
			}
			if e.RG == nil {
				e.RG = map[string]*RGSpec{}
			}
			e.RG[fam] = &RGSpec{Name: m[1], Guarantee: g, Rely: r}
		case "specrec":
			// specrec name(a Sort, b Sort) Sort = <smt body>   (define-fun-rec sf_name)
			m := regexp.MustCompile(`^(\w+)\((.*?)\)\s*(\S+)\s*=\s*(.*)$`).FindStringSubmatch(rest)
			if m == nil {
				return fmt.Errorf("bad specrec: %s", l)
			}
			sf := &SpecFn{Name: m[1], Ret: m[3], Defined: true}
			var ps []string
			for _, a := range splitTop(m[2]) {
				a = strings.TrimSpace(a)
				i := strings.IndexAny(a, " \t")
				if i < 0 {
					return fmt.Errorf("bad specrec param %q", a)
				}
				sf.Args = append(sf.Args, strings.TrimSpace(a[i+1:]))
				ps = append(ps, "("+a[:i]+" "+strings.TrimSpace(a[i+1:])+")")
			}
			e.SpecFns[sf.Name] = sf
			body := m[4]
			for {
				i := strings.Index(body, "@cells(")
				if i < 0 {
					break
				}
				j := strings.Index(body[i:], ")")
				t, err := e.resolveType(pkgPath, body[i+7:i+j])
				if err != nil {
					return err
				}
				body = body[:i] + fmt.Sprint(cellsOf(t)) + body[i+j+1:]
			}
			for {
				// @off(T, path): cell offset of the leaf field `path` inside a value of type T
				i := strings.Index(body, "@off(")
				if i < 0 {
					break
				}
				j := strings.Index(body[i:], ")")
				parts := strings.SplitN(body[i+5:i+j], ",", 2)
				if len(parts) != 2 {
					return fmt.Errorf("bad @off in specrec %s", sf.Name)
				}
				t, err := e.resolveType(pkgPath, strings.TrimSpace(parts[0]))
				if err != nil {
					return err
				}
				off := -1
				for _, lf := range layoutOf(t).leaves {
					if lf.Path == strings.TrimSpace(parts[1]) {
						off = lf.Off
					}
				}
				if off < 0 {
					return fmt.Errorf("@off: no leaf %s", parts[1])
				}
				body = body[:i] + fmt.Sprint(off) + body[i+j+1:]
			}
			e.SpecDefs = append(e.SpecDefs, fmt.Sprintf("(define-fun-rec sf_%s (%s) %s %s)", sf.Name, strings.Join(ps, " "), sf.Ret, body))
		case "accrues":
			// accrues <expr over the parameters>: every call adds this amount to the caller's ghost accumulator acc()
			// (definitional: acc() is the sum of these amounts over the calls made; cost mode only)
			if cur == nil {
				return fmt.Errorf("clause outside func: %s", l)
			}
			c, err := parseClause(rest)
			if err != nil {
				return err
			}
			cur.Accrues = append(cur.Accrues, c)
		case "requires", "ensures", "decreases":
			if cur == nil {
				return fmt.Errorf("clause outside func: %s", l)
			}
			c, err := parseClause(rest)
			if err != nil {
				return err
			}
			switch word {
			case "requires":
				cur.Requires = append(cur.Requires, c)
			case "ensures":
				cur.Ensures = append(cur.Ensures, c)
			case "decreases":
				cur.Decreases = &c
			}
		case "inherit":
			// copy the clauses of the default contract that would otherwise apply to this function
			if cur == nil || cur.Default {
				return fmt.Errorf("inherit outside an explicit func contract: %s", l)
			}
			found := false
			skipTag := ""
			if strings.HasPrefix(strings.TrimSpace(rest), "-") {
				skipTag = strings.TrimPrefix(strings.TrimSpace(rest), "-") // inherit -TAG: all but the clauses tagged TAG
			}
			for _, d := range e.Defaults {
				if strings.HasPrefix(cur.Key, strings.TrimSuffix(d.Key, "*")) {
					cur.Requires = append(cur.Requires, d.Requires...)
					for _, en := range d.Ensures {
						if skipTag != "" && en.Tag == skipTag {
							continue
						}
						en.Inherited = true
						cur.Ensures = append(cur.Ensures, en)
					}
					if w := d.Loops[-1]; w != nil {
						ls := cur.Loops[-1]
						if ls == nil {
							ls = &LoopSpec{}
							cur.Loops[-1] = ls
						}
						for _, inv := range w.Invariants {
							if skipTag != "" && inv.Tag == skipTag {
								continue
							}
							ls.Invariants = append(ls.Invariants, inv)
						}
					}
					found = true
					break
				}
			}
			if !found {
				return fmt.Errorf("inherit: no default contract matches %s", cur.Key)
			}
		case "trusted":
			if cur == nil {
				return fmt.Errorf("clause outside func: %s", l)
			}
			cur.Trusted = true
		case "modifies":
			if cur == nil {
				return fmt.Errorf("clause outside func: %s", l)
			}
			for _, it := range strings.Split(rest, ",") {
				cur.modifiesSrc = append(cur.modifiesSrc, strings.TrimSpace(it))
			}
		case "loop":
			if cur == nil {
				return fmt.Errorf("clause outside func: %s", l)
			}
			m := regexp.MustCompile(`^(\d+|\*)\s+(invariant|decreases)\s+(.*)$`).FindStringSubmatch(rest)
			if m == nil {
				return fmt.Errorf("bad loop clause: %s", l)
			}
			n, _ := strconv.Atoi(m[1])
			if m[1] == "*" {
				n = -1 // candidate invariant for every loop of the function (kept only where it is inductive)
			}
			ls := cur.Loops[n]
			if ls == nil {
				ls = &LoopSpec{}
				cur.Loops[n] = ls
			}
			c, err := parseClause(m[3])
			if err != nil {
				return err
			}
			if m[2] == "invariant" {
				ls.Invariants = append(ls.Invariants, c)
			} else {
				ls.Decreases = &c
			}
		default:
			return fmt.Errorf("unknown contract directive %q", l)
		}
	}
	// resolve modifies
	for _, c := range e.Contracts {
		if c.File != path || c.modifiesSrc == nil {
			continue
		}
		ms := &ModSet{Arrs: map[string]bool{}}
		for _, it := range c.modifiesSrc {
			switch {
			case it == "nothing" || it == "":
			case it == "alloc":
				ms.Alloc = true
			case it == "everything":
				ms.All = true
			default:
				// T.f  (struct field families) or elems(T)
				if strings.HasPrefix(it, "elems(") {
					t, err := e.resolveType(pkgPath, strings.TrimSuffix(strings.TrimPrefix(it, "elems("), ")"))
					if err != nil {
						return err
					}
					for _, a := range storeArrays(t) {
						ms.Arrs[a] = true
					}
					continue
				}
				i := strings.LastIndex(it, ".")
				if i < 0 {
					return fmt.Errorf("bad modifies item %q", it)
				}
				// allow nested: T.f.g
				parts := strings.Split(it, ".")
				var t types.Type
				var err error
				k := 1
				t, err = e.resolveType(pkgPath, parts[0])
				if err != nil && len(parts) > 2 {
					t, err = e.resolveType(pkgPath, parts[0]+"."+parts[1])
					k = 2
				}
				if err != nil {
					return err
				}
				fpath := strings.Join(parts[k:], ".")
				n := 0
				for _, lf := range layoutOf(t).leaves {
					if lf.Path == fpath || strings.HasPrefix(lf.Path, fpath+".") || strings.HasPrefix(lf.Path, fpath+"#") || strings.HasPrefix(lf.Path, fpath+"[") {
						ms.Arrs[lf.Arr] = true
						famLeafSort[lf.Arr] = lf.Sort
						n++
					}
				}
				if n == 0 {
					return fmt.Errorf("modifies item %q matches no field", it)
				}
			}
		}
		c.Modifies = ms
	}
	return nil
}

func (e *Engine) resolveType(pkgPath, expr string) (types.Type, error) {
	p := e.PPkgs[pkgPath]
	if p == nil {
		return nil, fmt.Errorf("package %s not loaded", pkgPath)
	}
	// qualified names need the import in scope: evaluate inside the package's first file scope
	pos := token.NoPos
	if len(p.Syntax) > 0 {
		for _, f := range p.Syntax {
			if !strings.HasSuffix(e.Fset.Position(f.Pos()).Filename, "_test.go") {
				pos = f.End() - 1
				_ = pos
			}
		}
	}
	tv, err := types.Eval(e.Fset, p.Types, token.NoPos, expr)
	if err != nil {
		// try through imports by qualifying manually: pkg.Name
		if i := strings.Index(expr, "."); i > 0 {
			star := ""
			ex := expr
			for strings.HasPrefix(ex, "*") {
				star += "*"
				ex = ex[1:]
			}
			i = strings.Index(ex, ".")
			if i > 0 {
				for _, imp := range p.Types.Imports() {
					if imp.Name() == ex[:i] {
						if obj := imp.Scope().Lookup(ex[i+1:]); obj != nil {
							t := obj.Type()
							for range star {
								t = types.NewPointer(t)
							}
							return t, nil
						}
					}
				}
			}
		}
		return nil, fmt.Errorf("cannot resolve type %q in %s: %v", expr, pkgPath, err)
	}
	if !tv.IsType() {
		return nil, fmt.Errorf("%q is not a type", expr)
	}
	return tv.Type, nil
}

// contractFor returns the written contract of fn, or an auto contract from the property driver.
func (e *Engine) contractFor(fn *ssa.Function, opts *VCOpts) *Contract {
	k := fnKey(fn)
	if c, ok := e.Contracts[k]; ok {
		return c
	}
	if fn.Parent() == nil && fn.Synthetic == "" {
	next:
		for _, d := range e.Defaults {
			if strings.HasPrefix(k, strings.TrimSuffix(d.Key, "*")) {
				for _, ex := range d.Except {
					if ex == k {
						continue next
					}
				}
				if !defaultApplies(d, fn) {
					continue next
				}
				if e.exempt[k] {
					return nil // small helper seen through inlining (see prepareExempt)
				}
				return d
			}
		}
	}
	if opts != nil && opts.AutoContract != nil {
		return opts.AutoContract(fn)
	}
	return nil
}

// defaultApplies: a default contract whose clauses all speak about the error result says nothing about a
// function that returns no error; such a function keeps being inlined/havoced as if it had no contract.
func defaultApplies(d *Contract, fn *ssa.Function) bool {
	if len(d.Requires) > 0 {
		return true
	}
	hasErr := false
	rs := fn.Signature.Results()
	for i := 0; i < rs.Len(); i++ {
		if isErrorType(rs.At(i).Type()) {
			hasErr = true
		}
	}
	if hasErr {
		return true
	}
	for _, e := range d.Ensures {
		usesErr := false
		ast.Inspect(e.Expr, func(n ast.Node) bool {
			if id, ok := n.(*ast.Ident); ok && id.Name == "err" {
				usesErr = true
			}
			return true
		})
		if !usesErr {
			return true
		}
	}
	return false
}

// ---------- spec evaluation ----------

type SV struct {
	T types.Type
	V Val
	S string // sort when T == nil (spec-level scalar)
}

type SpecEnv struct {
	peakOverride string
	fr           *Frame
	fn           *ssa.Function // function whose package gives the scope
	names        map[string]SV
	st           *State
	old          *State
	pre          *State
	loop         *loopInfo
	bound        int
	depth        int
}

func newSpecEnv(fr *Frame, fn *ssa.Function) *SpecEnv {
	return &SpecEnv{fr: fr, fn: fn, names: map[string]SV{}}
}

// bindParams binds parameter names (and `recv` for the receiver) to argument values
func (env *SpecEnv) bindParams(fn *ssa.Function, args []Val) {
	for i, p := range fn.Params {
		if i < len(args) {
			env.names[p.Name()] = SV{T: p.Type(), V: args[i]}
			if i == 0 && fn.Signature.Recv() != nil {
				env.names["recv"] = SV{T: p.Type(), V: args[i]}
			}
		}
	}
}

func (env *SpecEnv) pkg() *types.Package {
	f := env.fn
	for f.Parent() != nil {
		f = f.Parent()
	}
	if f.Pkg != nil {
		return f.Pkg.Pkg
	}
	if f.Package() != nil {
		return f.Package().Pkg
	}
	if recv := f.Signature.Recv(); recv != nil {
		t := recv.Type()
		if p, ok := t.(*types.Pointer); ok {
			t = p.Elem()
		}
		if n, ok := t.(*types.Named); ok {
			return n.Obj().Pkg()
		}
	}
	return nil
}

func (env *SpecEnv) bindResults(fn *ssa.Function, res Val) {
	rs := fn.Signature.Results()
	off := 0
	for i := 0; i < rs.Len(); i++ {
		n := len(layoutOf(rs.At(i).Type()).leaves)
		if off+n > len(res.C) {
			break
		}
		sv := SV{T: rs.At(i).Type(), V: Val{C: res.C[off : off+n]}}
		env.names[fmt.Sprintf("result%d", i)] = sv
		if i == 0 {
			env.names["result"] = sv
		}
		if nm := rs.At(i).Name(); nm != "" && nm != "_" {
			if _, clash := env.names[nm]; !clash {
				env.names[nm] = sv
			}
		}
		if isErrorType(rs.At(i).Type()) {
			env.names["err"] = sv
		}
		off += n
	}
}

func isErrorType(t types.Type) bool {
	n, ok := t.(*types.Named)
	return ok && n.Obj().Pkg() == nil && n.Obj().Name() == "error"
}

func (env *SpecEnv) evalBool(e ast.Expr) (string, error) {
	sv, err := env.eval(e)
	if err != nil {
		return "", err
	}
	if len(sv.V.C) != 1 || env.sortOf(sv) != "Bool" {
		return "", fmt.Errorf("expression %s is not boolean", exprString(e))
	}
	return sv.V.C[0], nil
}

func (env *SpecEnv) evalInt(e ast.Expr) (string, error) {
	sv, err := env.eval(e)
	if err != nil {
		return "", err
	}
	if len(sv.V.C) != 1 || env.sortOf(sv) != "Int" {
		return "", fmt.Errorf("expression %s is not an integer", exprString(e))
	}
	return sv.V.C[0], nil
}

func (env *SpecEnv) sortOf(sv SV) string {
	if sv.T == nil {
		return sv.S
	}
	l := layoutOf(sv.T)
	if len(l.leaves) == 1 {
		return l.leaves[0].Sort
	}
	return "multi"
}

func exprString(e ast.Expr) string {
	return types.ExprString(e)
}

func intSV(t string) SV  { return SV{S: "Int", V: Val{C: []string{t}}} }
func boolSV(t string) SV { return SV{S: "Bool", V: Val{C: []string{t}}} }

func (env *SpecEnv) eval(e ast.Expr) (SV, error) {
	fr := env.fr
	q := fr.q
	switch x := e.(type) {
	case *ast.ParenExpr:
		return env.eval(x.X)
	case *ast.BasicLit:
		switch x.Kind {
		case token.INT:
			v, err := strconv.ParseInt(x.Value, 0, 64)
			if err != nil {
				return SV{}, err
			}
			return intSV(sInt(v)), nil
		case token.CHAR:
			s, err := strconv.Unquote(x.Value)
			if err != nil {
				return SV{}, err
			}
			r := []rune(s)
			return intSV(sInt(int64(r[0]))), nil
		case token.STRING:
			s, err := strconv.Unquote(x.Value)
			if err != nil {
				return SV{}, err
			}
			return SV{T: types.Typ[types.String], V: Val{C: []string{q.strConst(s)}}}, nil
		}
		return SV{}, fmt.Errorf("unsupported literal %s", x.Value)
	case *ast.Ident:
		switch x.Name {
		case "true":
			return boolSV("true"), nil
		case "false":
			return boolSV("false"), nil
		case "nil":
			return SV{S: "nil", V: Val{C: []string{"0"}}}, nil
		}
		if sv, ok := env.names[x.Name]; ok {
			return sv, nil
		}
		if sv, ok := env.lookupLocal(x.Name); ok {
			return sv, nil
		}
		if pk := env.pkg(); pk != nil {
			if obj := pk.Scope().Lookup(x.Name); obj != nil {
				return env.objValue(obj)
			}
		}
		return SV{}, fmt.Errorf("unknown name %q", x.Name)
	case *ast.UnaryExpr:
		a, err := env.eval(x.X)
		if err != nil {
			return SV{}, err
		}
		switch x.Op {
		case token.NOT:
			return boolSV(sNot(a.V.C[0])), nil
		case token.SUB:
			return intSV("(- " + a.V.C[0] + ")"), nil
		}
		return SV{}, fmt.Errorf("unsupported unary %s", x.Op)
	case *ast.StarExpr:
		a, err := env.eval(x.X)
		if err != nil {
			return SV{}, err
		}
		pt, ok := underlyingOrNil(a.T).(*types.Pointer)
		if !ok {
			return SV{}, fmt.Errorf("deref of non-pointer")
		}
		return SV{T: pt.Elem(), V: fr.load(env.st, a.V.C[0], pt.Elem())}, nil
	case *ast.BinaryExpr:
		return env.evalBinary(x)
	case *ast.SelectorExpr:
		// package-qualified?
		if id, ok := x.X.(*ast.Ident); ok {
			if _, isName := env.names[id.Name]; !isName {
				if _, isLocal := env.lookupLocal(id.Name); !isLocal {
					if pk := env.pkg(); pk != nil {
						for _, imp := range pk.Imports() {
							if imp.Name() == id.Name {
								obj := imp.Scope().Lookup(x.Sel.Name)
								if obj == nil {
									return SV{}, fmt.Errorf("%s.%s not found", id.Name, x.Sel.Name)
								}
								return env.objValue(obj)
							}
						}
					}
				}
			}
		}
		a, err := env.eval(x.X)
		if err != nil {
			return SV{}, err
		}
		return env.selectField(a, x.Sel.Name)
	case *ast.IndexExpr:
		a, err := env.eval(x.X)
		if err != nil {
			return SV{}, err
		}
		i, err := env.evalInt(x.Index)
		if err != nil {
			return SV{}, err
		}
		switch t := underlyingOrNil(a.T).(type) {
		case *types.Slice:
			addr := sAdd(a.V.C[0], sMulC(i, cellsOf(t.Elem())))
			return SV{T: t.Elem(), V: fr.load(env.st, addr, t.Elem())}, nil
		case *types.Basic:
			return intSV("(sat " + a.V.C[0] + " " + i + ")"), nil
		}
		return SV{}, fmt.Errorf("cannot index %s", exprString(x.X))
	case *ast.SliceExpr:
		a, err := env.eval(x.X)
		if err != nil {
			return SV{}, err
		}
		lo, hi := "0", ""
		if x.Low != nil {
			if lo, err = env.evalInt(x.Low); err != nil {
				return SV{}, err
			}
		}
		switch t := underlyingOrNil(a.T).(type) {
		case *types.Basic:
			hi = "(slen " + a.V.C[0] + ")"
			if x.High != nil {
				if hi, err = env.evalInt(x.High); err != nil {
					return SV{}, err
				}
			}
			return SV{T: a.T, V: Val{C: []string{fmt.Sprintf("(ssub %s %s %s)", a.V.C[0], lo, hi)}}}, nil
		case *types.Slice:
			hi = a.V.C[1]
			if x.High != nil {
				if hi, err = env.evalInt(x.High); err != nil {
					return SV{}, err
				}
			}
			return SV{T: a.T, V: Val{C: []string{sAdd(a.V.C[0], sMulC(lo, cellsOf(t.Elem()))), "(- " + hi + " " + lo + ")", "(- " + a.V.C[2] + " " + lo + ")"}}}, nil
		}
		return SV{}, fmt.Errorf("cannot slice %s", exprString(x.X))
	case *ast.CallExpr:
		return env.evalCall(x)
	}
	return SV{}, fmt.Errorf("unsupported spec expression %s", exprString(e))
}

func underlyingOrNil(t types.Type) types.Type {
	if t == nil {
		return nil
	}
	return underlying(t)
}

func (env *SpecEnv) objValue(obj types.Object) (SV, error) {
	switch o := obj.(type) {
	case *types.Const:
		switch o.Val().Kind() {
		case constant.Int:
			if v, ok := constant.Int64Val(o.Val()); ok {
				return SV{T: o.Type(), V: Val{C: []string{sInt(v)}}}, nil
			}
			return SV{T: o.Type(), V: Val{C: []string{o.Val().ExactString()}}}, nil
		case constant.Bool:
			if constant.BoolVal(o.Val()) {
				return boolSV("true"), nil
			}
			return boolSV("false"), nil
		case constant.String:
			return SV{T: types.Typ[types.String], V: Val{C: []string{env.fr.q.strConst(constant.StringVal(o.Val()))}}}, nil
		}
	case *types.Var:
		// package-level variable: value loaded from its global cell
		if o.Pkg() != nil {
			if sp := env.fr.q.eng.SPkgs[o.Pkg().Path()]; sp != nil {
				if g, ok := sp.Members[o.Name()].(*ssa.Global); ok {
					addr := sInt(int64(env.fr.q.eng.globalAddress(g)))
					return SV{T: o.Type(), V: env.fr.load(env.st, addr, o.Type())}, nil
				}
			}
		}
	}
	return SV{}, fmt.Errorf("cannot use %s in a spec", obj.Name())
}

// lookupLocal resolves a source-level local variable name at the current spec point.
func (env *SpecEnv) lookupLocal(name string) (SV, bool) {
	fr := env.fr
	if fr.fn != env.fn {
		return SV{}, false
	}
	// captured variable of a closure: the free variable is a pointer to the variable's cell
	for _, fv := range fr.fn.FreeVars {
		if fv.Name() == name {
			if _, ok := fr.vals[fv]; ok {
				if pt, ok := underlying(fv.Type()).(*types.Pointer); ok {
					return SV{T: pt.Elem(), V: fr.loadViaIn(env.st, fv, pt.Elem())}, true
				}
			}
		}
	}
	// address-taken local: load from its cell
	if vs := fr.names["&"+name]; len(vs) == 1 {
		if _, ok := fr.vals[vs[0]]; ok {
			if pt, ok := underlying(vs[0].Type()).(*types.Pointer); ok {
				return SV{T: pt.Elem(), V: fr.loadViaIn(env.st, vs[0], pt.Elem())}, true
			}
		}
	}
	vs := fr.names[name]
	if len(vs) == 1 {
		if v, ok := fr.vals[vs[0]]; ok {
			return SV{T: vs[0].Type(), V: v}, true
		}
		if c, ok := vs[0].(*ssa.Const); ok {
			return SV{T: c.Type(), V: fr.constVal(c)}, true
		}
	}
	if env.loop != nil {
		// reaching definition at the loop header: among the values the name ever denotes, those defined in a
		// block that dominates the header; the one deepest in the dominator tree is the current one.
		var best ssa.Value
		bestDepth := -1
		hdr := env.loop.header
		for _, v := range vs {
			if _, isC := v.(*ssa.Const); isC {
				if bestDepth < 0 {
					best, bestDepth = v, 0
				}
				continue
			}
			if _, have := fr.vals[v]; !have {
				continue
			}
			ins, ok := v.(ssa.Instruction)
			if !ok {
				if bestDepth < 1 {
					best, bestDepth = v, 1 // parameter
				}
				continue
			}
			b := ins.Block()
			if b == hdr {
				if _, isPhi := v.(*ssa.Phi); !isPhi {
					continue
				}
			} else if !b.Dominates(hdr) || env.loop.blocks[b] {
				continue
			}
			d := 2
			for x := b; x != nil; x = x.Idom() {
				d++
			}
			if d > bestDepth {
				best, bestDepth = v, d
			}
		}
		if best != nil {
			if c, ok := best.(*ssa.Const); ok {
				return SV{T: c.Type(), V: fr.constVal(c)}, true
			}
			return SV{T: best.Type(), V: fr.vals[best]}, true
		}
	}
	return SV{}, false
}

func (env *SpecEnv) selectField(a SV, name string) (SV, error) {
	fr := env.fr
	t := a.T
	if t == nil {
		return SV{}, fmt.Errorf("selector .%s on untyped spec value", name)
	}
	if pt, ok := underlying(t).(*types.Pointer); ok {
		st, ok := underlying(pt.Elem()).(*types.Struct)
		if !ok {
			return SV{}, fmt.Errorf(".%s on pointer to non-struct", name)
		}
		base := a.V.C[0]
		off := 0
		for i := 0; i < st.NumFields(); i++ {
			f := st.Field(i)
			if f.Name() == name {
				switch underlying(f.Type()).(type) {
				case *types.Struct, *types.Array:
					// nested aggregate: produce a value by loading it
					return SV{T: f.Type(), V: fr.load(env.st, sAdd(base, sInt(int64(off))), f.Type())}, nil
				}
				// leaf field: families of the parent
				pl := layoutOf(pt.Elem())
				v := Val{}
				for _, lf := range pl.leaves {
					if lf.Path == name || strings.HasPrefix(lf.Path, name+"#") {
						famLeafSort[lf.Arr] = lf.Sort
						v.C = append(v.C, fmt.Sprintf("(select %s %s)", fr.q.get(env.st, lf.Arr), sAdd(base, sInt(int64(lf.Off)))))
					}
				}
				return SV{T: f.Type(), V: v}, nil
			}
			switch underlying(f.Type()).(type) {
			case *types.Struct, *types.Array:
				off += cellsOf(f.Type())
			default:
				off++
			}
		}
		// embedded promotion (one level)
		for i := 0; i < st.NumFields(); i++ {
			if f := st.Field(i); f.Embedded() {
				sub, err := env.selectField(a, f.Name())
				if err == nil {
					if r, err2 := env.selectField(sub, name); err2 == nil {
						return r, nil
					}
				}
			}
		}
		return SV{}, fmt.Errorf("no field %s in %s", name, pt.Elem())
	}
	if st, ok := underlying(t).(*types.Struct); ok {
		off := 0
		for i := 0; i < st.NumFields(); i++ {
			f := st.Field(i)
			n := len(layoutOf(f.Type()).leaves)
			if f.Name() == name {
				return SV{T: f.Type(), V: Val{C: a.V.C[off : off+n]}}, nil
			}
			off += n
		}
		return SV{}, fmt.Errorf("no field %s in %s", name, t)
	}
	return SV{}, fmt.Errorf("selector .%s on %s", name, t)
}

func (env *SpecEnv) evalBinary(x *ast.BinaryExpr) (SV, error) {
	a, err := env.eval(x.X)
	if err != nil {
		return SV{}, err
	}
	b, err := env.eval(x.Y)
	if err != nil {
		return SV{}, err
	}
	switch x.Op {
	case token.LAND:
		return boolSV(sAnd(a.V.C[0], b.V.C[0])), nil
	case token.LOR:
		return boolSV(sOr(a.V.C[0], b.V.C[0])), nil
	case token.EQL, token.NEQ:
		var cs []string
		if a.S == "nil" || b.S == "nil" {
			o := a
			if a.S == "nil" {
				o = b
			}
			if o.S != "nil" {
				switch underlyingOrNil(o.T).(type) {
				case *types.Pointer, *types.Slice, *types.Interface, *types.Map, *types.Signature, *types.Chan:
				default:
					return SV{}, fmt.Errorf("comparison with nil of a non-nillable value in %s", exprString(x))
				}
			}
			cs = append(cs, sEq(o.V.C[0], "0"))
		} else {
			if len(a.V.C) != len(b.V.C) {
				return SV{}, fmt.Errorf("comparing values of different shape in %s", exprString(x))
			}
			for i := range a.V.C {
				cs = append(cs, sEq(a.V.C[i], b.V.C[i]))
			}
		}
		r := sAnd(cs...)
		if x.Op == token.NEQ {
			r = sNot(r)
		}
		return boolSV(r), nil
	}
	if len(a.V.C) != 1 || len(b.V.C) != 1 {
		return SV{}, fmt.Errorf("arithmetic on composite value in %s", exprString(x))
	}
	A, B := a.V.C[0], b.V.C[0]
	if env.sortOf(a) == "Str" && x.Op == token.ADD {
		return SV{T: types.Typ[types.String], V: Val{C: []string{"(scat " + A + " " + B + ")"}}}, nil
	}
	switch x.Op {
	case token.ADD:
		return intSV("(+ " + A + " " + B + ")"), nil
	case token.SUB:
		return intSV("(- " + A + " " + B + ")"), nil
	case token.MUL:
		return intSV("(* " + A + " " + B + ")"), nil
	case token.QUO:
		return intSV("(goDiv " + A + " " + B + ")"), nil
	case token.REM:
		return intSV("(goMod " + A + " " + B + ")"), nil
	case token.LSS:
		return boolSV("(< " + A + " " + B + ")"), nil
	case token.LEQ:
		return boolSV("(<= " + A + " " + B + ")"), nil
	case token.GTR:
		return boolSV("(> " + A + " " + B + ")"), nil
	case token.GEQ:
		return boolSV("(>= " + A + " " + B + ")"), nil
	}
	return SV{}, fmt.Errorf("unsupported operator %s", x.Op)
}

func (env *SpecEnv) evalCall(x *ast.CallExpr) (SV, error) {
	fr := env.fr
	q := fr.q
	name := ""
	if id, ok := x.Fun.(*ast.Ident); ok {
		name = id.Name
	}
	switch name {
	case "len", "cap":
		a, err := env.eval(x.Args[0])
		if err != nil {
			return SV{}, err
		}
		switch underlyingOrNil(a.T).(type) {
		case *types.Slice:
			if name == "len" {
				return intSV(a.V.C[1]), nil
			}
			return intSV(a.V.C[2]), nil
		case *types.Basic:
			return intSV("(slen " + a.V.C[0] + ")"), nil
		}
		return SV{}, fmt.Errorf("len of %s", exprString(x.Args[0]))
	case "old", "pre", "now":
		save := env.st
		switch name {
		case "old":
			env.st = env.old
		case "pre":
			if env.pre != nil {
				env.st = env.pre
			}
		}
		defer func() { env.st = save }()
		return env.eval(x.Args[0])
	case "implies":
		a, err := env.evalBool(x.Args[0])
		if err != nil {
			return SV{}, err
		}
		b, err := env.evalBool(x.Args[1])
		if err != nil {
			return SV{}, err
		}
		return boolSV(sImp(a, b)), nil
	case "iff":
		a, err := env.evalBool(x.Args[0])
		if err != nil {
			return SV{}, err
		}
		b, err := env.evalBool(x.Args[1])
		if err != nil {
			return SV{}, err
		}
		return boolSV(sEq(a, b)), nil
	case "ite":
		c, err := env.evalBool(x.Args[0])
		if err != nil {
			return SV{}, err
		}
		a, err := env.eval(x.Args[1])
		if err != nil {
			return SV{}, err
		}
		b, err := env.eval(x.Args[2])
		if err != nil {
			return SV{}, err
		}
		out := SV{T: a.T, S: a.S}
		for i := range a.V.C {
			out.V.C = append(out.V.C, sIte(c, a.V.C[i], b.V.C[i]))
		}
		return out, nil
	case "forall", "exists":
		// forall(i, lo, hi, body): lo <= i < hi
		id, ok := x.Args[0].(*ast.Ident)
		if !ok || len(x.Args) != 4 {
			return SV{}, fmt.Errorf("forall(i, lo, hi, body) expected")
		}
		lo, err := env.evalInt(x.Args[1])
		if err != nil {
			return SV{}, err
		}
		hi, err := env.evalInt(x.Args[2])
		if err != nil {
			return SV{}, err
		}
		env.bound++
		q.counter++
		bv := fmt.Sprintf("%s!b%d", id.Name, q.counter)
		saved, had := env.names[id.Name]
		env.names[id.Name] = intSV(bv)
		body, err := env.evalBool(x.Args[3])
		if had {
			env.names[id.Name] = saved
		} else {
			delete(env.names, id.Name)
		}
		if err != nil {
			return SV{}, err
		}
		rng := fmt.Sprintf("(and (<= %s %s) (< %s %s))", lo, bv, bv, hi)
		if name == "forall" {
			return boolSV(fmt.Sprintf("(forall ((%s Int)) (=> %s %s))", bv, rng, body)), nil
		}
		return boolSV(fmt.Sprintf("(exists ((%s Int)) (and %s %s))", bv, rng, body)), nil
	case "int", "int64", "int32", "rune", "byte", "uint8":
		return env.eval(x.Args[0])
	case "typeis":
		// typeis(x, T): dynamic type of interface value x is T
		a, err := env.eval(x.Args[0])
		if err != nil {
			return SV{}, err
		}
		t, err := q.eng.resolveType(env.pkg().Path(), exprString(x.Args[1]))
		if err != nil {
			return SV{}, err
		}
		return boolSV(fr.tagIs(a.V.C[0], t)), nil
	}
	if pd, ok := q.eng.Preds[name]; ok {
		if len(x.Args) != len(pd.Params) {
			return SV{}, fmt.Errorf("pred %s expects %d args", name, len(pd.Params))
		}
		if env.depth > 8 {
			return SV{}, fmt.Errorf("pred expansion too deep")
		}
		sub := &SpecEnv{fr: fr, fn: env.fn, names: map[string]SV{}, st: env.st, old: env.old, pre: env.pre, depth: env.depth + 1}
		for i, a := range x.Args {
			v, err := env.eval(a)
			if err != nil {
				return SV{}, err
			}
			sub.names[pd.Params[i]] = v
		}
		// bound variables of enclosing quantifiers stay visible
		for k, v := range env.names {
			if v.T == nil && strings.Contains(v.V.C[0], "!b") {
				if _, ok := sub.names[k]; !ok {
					sub.names[k] = v
				}
			}
		}
		return sub.eval(pd.Body)
	}
	if sf, ok := q.eng.SpecFns[name]; ok {
		var args []string
		for _, a := range x.Args {
			v, err := env.eval(a)
			if err != nil {
				return SV{}, err
			}
			args = append(args, v.V.C...)
		}
		if len(args) != len(sf.Args) {
			return SV{}, fmt.Errorf("specfn %s expects %d leaves, got %d", name, len(sf.Args), len(args))
		}
		if !sf.Defined {
			q.declareFun("sf_"+sf.Name, sf.Args, sf.Ret)
		}
		t := "(sf_" + sf.Name + " " + strings.Join(args, " ") + ")"
		if len(args) == 0 {
			t = "sf_" + sf.Name
		}
		return SV{S: sf.Ret, V: Val{C: []string{t}}}, nil
	}
	if h, ok := specBuiltins[name]; ok {
		return h(env, x)
	}
	if h, ok := specBuiltinsExtra[name]; ok {
		return h(env, x)
	}
	return SV{}, fmt.Errorf("unknown spec function %s", exprString(x.Fun))
}

var specBuiltins map[string]func(env *SpecEnv, x *ast.CallExpr) (SV, error)

func init() {
	specBuiltins = map[string]func(env *SpecEnv, x *ast.CallExpr) (SV, error){
		// mem(s): the current memory array holding the elements of slice s (single-leaf element types)
		"mem": func(env *SpecEnv, x *ast.CallExpr) (SV, error) {
			a, err := env.eval(x.Args[0])
			if err != nil {
				return SV{}, err
			}
			sl, ok := underlyingOrNil(a.T).(*types.Slice)
			if !ok {
				return SV{}, fmt.Errorf("mem() of non-slice")
			}
			l := layoutOf(sl.Elem())
			if len(l.leaves) != 1 {
				return SV{}, fmt.Errorf("mem() needs a single-leaf element type")
			}
			famLeafSort[l.leaves[0].Arr] = l.leaves[0].Sort
			return SV{S: "(Array Int " + l.leaves[0].Sort + ")", V: Val{C: []string{env.fr.q.get(env.st, l.leaves[0].Arr)}}}, nil
		},
		// memf(s, Field): the memory array holding field Field of the struct elements of slice s
		"memf": func(env *SpecEnv, x *ast.CallExpr) (SV, error) {
			a, err := env.eval(x.Args[0])
			if err != nil {
				return SV{}, err
			}
			sl, ok := underlyingOrNil(a.T).(*types.Slice)
			if !ok {
				return SV{}, fmt.Errorf("memf() of non-slice")
			}
			path := exprString(x.Args[1]) // Field or Field.Sub
			for _, lf := range layoutOf(sl.Elem()).leaves {
				if lf.Path == path {
					famLeafSort[lf.Arr] = lf.Sort
					return SV{S: "(Array Int " + lf.Sort + ")", V: Val{C: []string{env.fr.q.get(env.st, lf.Arr)}}}, nil
				}
			}
			return SV{}, fmt.Errorf("memf: no field %s", path)
		},
		"ptr": func(env *SpecEnv, x *ast.CallExpr) (SV, error) {
			a, err := env.eval(x.Args[0])
			if err != nil {
				return SV{}, err
			}
			return intSV(a.V.C[0]), nil
		},
		// sumlen1(lines [, k]): sum over the first k (default: all) strings of the slice of (length + 1)
		"sumlen1": func(env *SpecEnv, x *ast.CallExpr) (SV, error) {
			a, err := env.eval(x.Args[0])
			if err != nil {
				return SV{}, err
			}
			sl, ok := underlyingOrNil(a.T).(*types.Slice)
			if !ok || !isStringT(sl.Elem()) {
				return SV{}, fmt.Errorf("sumlen1() needs a []string")
			}
			lf := layoutOf(sl.Elem()).leaves[0]
			famLeafSort[lf.Arr] = lf.Sort
			k := a.V.C[1]
			if len(x.Args) > 1 {
				if k, err = env.evalInt(x.Args[1]); err != nil {
					return SV{}, err
				}
			}
			return intSV(fmt.Sprintf("(sumlen1 %s %s %s)", env.fr.q.get(env.st, lf.Arr), a.V.C[0], k)), nil
		},
		// isnew(x): the slice or pointer x is nil or points into memory allocated by this call (its address lies at or
		// above the allocation mark of the entry state), hence cannot alias anything that existed before
		"isnew": func(env *SpecEnv, x *ast.CallExpr) (SV, error) {
			a, err := env.eval(x.Args[0])
			if err != nil {
				return SV{}, err
			}
			switch underlyingOrNil(a.T).(type) {
			case *types.Slice, *types.Pointer:
			default:
				return SV{}, fmt.Errorf("isnew() needs a slice or a pointer")
			}
			p := a.V.C[0]
			// the allocation mark of the function under verification at its entry (for a clause evaluated at a call site,
			// env.old is the state before the call, which is what "allocated by the callee" means there)
			ref := env.old
			if env.fr != nil && env.fr.parent != nil && env.fn == env.fr.fn {
				ref = env.fr.root().entry
			}
			top0 := env.fr.q.get(ref, "$top")
			return SV{T: types.Typ[types.Bool], V: Val{C: []string{"(or (= " + p + " 0) (>= " + p + " " + top0 + "))"}}}, nil
		},
		// srcof(s): the name of the file whose contents the string s was read or derived from (ghost; defined by the
		// transfer rules of the C19 driver and the contracts that mention it)
		"srcof": func(env *SpecEnv, x *ast.CallExpr) (SV, error) {
			a, err := env.eval(x.Args[0])
			if err != nil {
				return SV{}, err
			}
			if len(a.V.C) != 1 || env.sortOf(a) != "Str" {
				return SV{}, fmt.Errorf("srcof() needs a string")
			}
			r := env.fr.uf("g_src", []string{a.V.C[0]}, []string{"Str"}, "Str")
			return SV{T: types.Typ[types.String], V: Val{C: []string{r}}}, nil
		},
		// succeeded(): the error result is nil (true for a function without an error result)
		"succeeded": func(env *SpecEnv, x *ast.CallExpr) (SV, error) {
			if sv, ok := env.names["err"]; ok && len(sv.V.C) >= 1 {
				return SV{T: types.Typ[types.Bool], V: Val{C: []string{"(= " + sv.V.C[0] + " 0)"}}}, nil
			}
			return SV{T: types.Typ[types.Bool], V: Val{C: []string{"true"}}}, nil
		},
		// peak(): the largest value the cursor of the receiver took since function entry (in a callee's contract at a
		// call site: during that call); look(): bytes callees looked at beyond where they stopped, summed since entry
		"peak": func(env *SpecEnv, x *ast.CallExpr) (SV, error) {
			if env.peakOverride != "" {
				return intSV(env.peakOverride), nil
			}
			if env.fr.q.opts == nil || !env.fr.q.opts.Cost || env.fr.q.peakFam == "" {
				return SV{}, fmt.Errorf("peak() needs cost mode and a receiver with a declared cursor")
			}
			return intSV(env.fr.q.get(env.st, "$hw")), nil
		},
		// acc(): sum, since function entry, of the amounts the contracts of the called functions declare with `accrues`
		"acc": func(env *SpecEnv, x *ast.CallExpr) (SV, error) {
			if env.fr.q.opts == nil || !env.fr.q.opts.Cost {
				return SV{}, fmt.Errorf("acc() outside cost mode")
			}
			return intSV("(- " + env.fr.q.get(env.st, "$acc") + " " + env.fr.q.get(env.old, "$acc") + ")"), nil
		},
		"look": func(env *SpecEnv, x *ast.CallExpr) (SV, error) {
			if env.fr.q.opts == nil || !env.fr.q.opts.Cost || env.fr.q.peakFam == "" {
				return SV{}, fmt.Errorf("look() needs cost mode and a receiver with a declared cursor")
			}
			return intSV("(- " + env.fr.q.get(env.st, "$look") + " " + env.fr.q.get(env.old, "$look") + ")"), nil
		},
		// cost(): abstract steps (loop iterations, plus the assumed cost of library calls) spent since function entry
		"cost": func(env *SpecEnv, x *ast.CallExpr) (SV, error) {
			if env.fr.q.opts == nil || !env.fr.q.opts.Cost {
				return SV{}, fmt.Errorf("cost() outside cost mode")
			}
			return intSV("(- " + env.fr.q.get(env.st, "$ticks") + " " + env.fr.q.get(env.old, "$ticks") + ")"), nil
		},
		"max0": func(env *SpecEnv, x *ast.CallExpr) (SV, error) {
			a, err := env.evalInt(x.Args[0])
			if err != nil {
				return SV{}, err
			}
			return intSV("(ite (>= " + a + " 0) " + a + " 0)"), nil
		},
	}
}
