package main

// Type layout: every Go value is a flat vector of SMT leaves; every memory
// cell family is an SMT array keyed by a stable name (DESIGN 1.3).

import (
	"fmt"
	"go/types"
	"sort"
	"strings"
)

type Leaf struct {
	Path string // e.g. "pos.Index", "input#ptr"
	Sort string // Int | Bool | Str | Real
	// memory placement (relative to the address of the outermost value when stored in memory)
	Arr  string // array family name
	Off  int    // cell offset from the base address
	Typ  types.Type
	Comp string // "", ptr, len, cap, tag, val
}

func underlying(t types.Type) types.Type {
	for {
		u := t.Underlying()
		if u == t {
			return t
		}
		t = u
	}
}

func typeKey(t types.Type) string {
	return types.TypeString(t, func(p *types.Package) string { return p.Path() })
}

func sanitize(s string) string {
	var b strings.Builder
	for _, r := range s {
		switch {
		case r >= 'a' && r <= 'z', r >= 'A' && r <= 'Z', r >= '0' && r <= '9', r == '_', r == '.':
			b.WriteRune(r)
		case r == '/':
			b.WriteString("_")
		case r == '*':
			b.WriteString("P")
		case r == '[':
			b.WriteString("L")
		case r == ']':
			b.WriteString("R")
		case r == ' ', r == '{', r == '}', r == ';', r == ',', r == '(', r == ')':
			b.WriteString("_")
		default:
			b.WriteString(fmt.Sprintf("u%x", r))
		}
	}
	return b.String()
}

var shortNames = map[string]string{}
var shortUsed = map[string]string{}

// shortType gives a compact, stable, human-readable SMT-safe name for a type.
func shortType(t types.Type) string {
	k := typeKey(t)
	if s, ok := shortNames[k]; ok {
		return s
	}
	s := k
	s = strings.ReplaceAll(s, "github.com/ajitpratap0/GoSQLX/pkg/", "")
	s = strings.ReplaceAll(s, "github.com/ajitpratap0/GoSQLX/", "")
	s = sanitize(s)
	if len(s) > 60 {
		s = s[:50] + fmt.Sprintf("_h%x", hashStr(k)&0xffffff)
	}
	if prev, ok := shortUsed[s]; ok && prev != k {
		s = s + fmt.Sprintf("_h%x", hashStr(k)&0xffffff)
	}
	shortUsed[s] = k
	shortNames[k] = s
	return s
}

func hashStr(s string) uint32 {
	var h uint32 = 2166136261
	for i := 0; i < len(s); i++ {
		h ^= uint32(s[i])
		h *= 16777619
	}
	return h
}

func basicSort(b *types.Basic) string {
	switch {
	case b.Info()&types.IsBoolean != 0:
		return "Bool"
	case b.Info()&types.IsInteger != 0:
		return "Int"
	case b.Info()&types.IsFloat != 0:
		return "Real"
	case b.Info()&types.IsString != 0:
		return "Str"
	case b.Kind() == types.UnsafePointer:
		return "Int"
	case b.Kind() == types.UntypedNil:
		return "Int"
	case b.Info()&types.IsComplex != 0:
		return "Real"
	}
	return "Int"
}

type layoutT struct {
	leaves []Leaf
	cells  int
}

var layoutCache = map[string]*layoutT{}

const maxInlineArray = 16

// valueLeaves: the leaves of a value of type t (no memory placement).
// memLeaves(t): the leaves with Arr/Off for a value of type t stored at an address.
func layoutOf(t types.Type) *layoutT {
	k := typeKey(t)
	if l, ok := layoutCache[k]; ok {
		return l
	}
	l := &layoutT{}
	layoutCache[k] = l // (recursive types go through pointers, so no infinite recursion by value)
	u := underlying(t)
	switch u := u.(type) {
	case *types.Basic:
		// byte and rune are aliases of uint8 and int32: one memory family per kind, whatever the spelling
		canon := types.Type(u)
		if int(u.Kind()) < len(types.Typ) && types.Typ[u.Kind()] != nil {
			canon = types.Typ[u.Kind()]
		}
		l.leaves = []Leaf{{Path: "", Sort: basicSort(u), Arr: "E|" + shortType(canon), Off: 0, Typ: t}}
		l.cells = 1
	case *types.Pointer, *types.Map, *types.Chan, *types.Signature:
		l.leaves = []Leaf{{Path: "", Sort: "Int", Arr: "E|" + shortType(refClass(u)), Off: 0, Typ: t}}
		l.cells = 1
	case *types.Slice:
		a := "E|" + shortType(u)
		l.leaves = []Leaf{
			{Path: "#ptr", Sort: "Int", Arr: a + "#ptr", Typ: t, Comp: "ptr"},
			{Path: "#len", Sort: "Int", Arr: a + "#len", Typ: t, Comp: "len"},
			{Path: "#cap", Sort: "Int", Arr: a + "#cap", Typ: t, Comp: "cap"}}
		l.cells = 1
	case *types.Interface:
		a := "E|iface"
		l.leaves = []Leaf{
			{Path: "#tag", Sort: "Int", Arr: a + "#tag", Typ: t, Comp: "tag"},
			{Path: "#val", Sort: "Int", Arr: a + "#val", Typ: t, Comp: "val"}}
		l.cells = 1
	case *types.Struct:
		off := 0
		sname := shortType(t)
		for i := 0; i < u.NumFields(); i++ {
			f := u.Field(i)
			fl := layoutOf(f.Type())
			fu := underlying(f.Type())
			switch fu.(type) {
			case *types.Struct, *types.Array:
				// nested aggregate: its own arrays, at address base+off
				for _, lf := range fl.leaves {
					nl := lf
					nl.Path = joinPath(f.Name(), lf.Path)
					nl.Off = off + lf.Off
					l.leaves = append(l.leaves, nl)
				}
				off += fl.cells
			default:
				for _, lf := range fl.leaves {
					nl := lf
					nl.Path = joinPath(f.Name(), lf.Path)
					nl.Arr = "F|" + sname + "|" + f.Name() + lf.Path
					nl.Off = off
					l.leaves = append(l.leaves, nl)
				}
				off += 1
			}
		}
		if off == 0 {
			off = 1
		}
		l.cells = off
	case *types.Array:
		n := int(u.Len())
		el := layoutOf(u.Elem())
		if n > maxInlineArray {
			// too large to flatten as a value: treated as opaque single Int leaf (value semantics lost);
			// memory accesses through IndexAddr still work element-wise.
			l.leaves = []Leaf{{Path: "", Sort: "Int", Arr: "E|bigarray", Typ: t}}
			l.cells = n * el.cells
			if l.cells == 0 {
				l.cells = 1
			}
			break
		}
		for i := 0; i < n; i++ {
			for _, lf := range el.leaves {
				nl := lf
				nl.Path = fmt.Sprintf("[%d]%s", i, lf.Path)
				nl.Off = i*el.cells + lf.Off
				l.leaves = append(l.leaves, nl)
			}
		}
		l.cells = n * el.cells
		if l.cells == 0 {
			l.cells = 1
		}
	case *types.Tuple:
		for i := 0; i < u.Len(); i++ {
			fl := layoutOf(u.At(i).Type())
			for _, lf := range fl.leaves {
				nl := lf
				nl.Path = fmt.Sprintf("r%d%s", i, lf.Path)
				l.leaves = append(l.leaves, nl)
			}
		}
		l.cells = 1
	case *types.TypeParam:
		l.leaves = []Leaf{{Path: "", Sort: "Int", Arr: "E|typeparam", Typ: t}}
		l.cells = 1
	default:
		l.leaves = []Leaf{{Path: "", Sort: "Int", Arr: "E|unknown", Typ: t}}
		l.cells = 1
	}
	return l
}

func joinPath(a, b string) string {
	if b == "" {
		return a
	}
	if a == "" {
		return b
	}
	if strings.HasPrefix(b, "#") || strings.HasPrefix(b, "[") {
		return a + b
	}
	return a + "." + b
}

// refClass: all pointers to the same element type share an array family; maps/chans/funcs one each.
func refClass(u types.Type) types.Type {
	return u
}

func cellsOf(t types.Type) int { return layoutOf(t).cells }

var symRepl = strings.NewReplacer("|", "$", "#", ".")

// smtSym turns an array family name into an SMT-LIB simple symbol.
func smtSym(a string) string { return symRepl.Replace(a) }

// zero term for a leaf sort
func zeroOf(sort string) string {
	switch sort {
	case "Bool":
		return "false"
	case "Str":
		return "str_empty"
	case "Real":
		return "0.0"
	}
	return "0"
}

// ---- type ids for interface tags ----
var typeIDs = map[string]int{}
var typeIDList []types.Type

func typeID(t types.Type) int {
	k := typeKey(t)
	if id, ok := typeIDs[k]; ok {
		return id
	}
	id := len(typeIDs) + 1
	typeIDs[k] = id
	typeIDList = append(typeIDList, t)
	return id
}

// intRange returns (lo,hi,ok) for bounded integer kinds
func intRange(t types.Type) (string, string, bool) {
	b, ok := underlying(t).(*types.Basic)
	if !ok {
		return "", "", false
	}
	switch b.Kind() {
	case types.Int8:
		return "(- 128)", "127", true
	case types.Int16:
		return "(- 32768)", "32767", true
	case types.Int32, types.UntypedRune:
		return "(- 2147483648)", "2147483647", true
	case types.Int, types.Int64:
		return "(- 9223372036854775808)", "9223372036854775807", true
	case types.Uint8:
		return "0", "255", true
	case types.Uint16:
		return "0", "65535", true
	case types.Uint32:
		return "0", "4294967295", true
	case types.Uint, types.Uint64, types.Uintptr:
		return "0", "18446744073709551615", true
	}
	return "", "", false
}

func sortedKeys[V any](m map[string]V) []string {
	ks := make([]string, 0, len(m))
	for k := range m {
		ks = append(ks, k)
	}
	sort.Strings(ks)
	return ks
}

type typesPointer = types.Pointer
