package main

import (
	"bytes"
	"context"
	"fmt"
	"go/types"
	"os"
	"os/exec"
	"path/filepath"
	"sort"
	"strings"
	"sync"
	"time"

	"golang.org/x/tools/go/ssa"
)

type FnResult struct {
	Fn             string
	Obls           []*Obligation
	Notes          []string
	Unsupported    []string
	Background     string // prelude + declarations + assertions
	CoverOK        bool
	CoverAnswer    string
	HasContract    bool
	StaleClauses   []string // written clauses that name locals the function no longer has
	NewLoopHelpers []string // exempted new helpers with loops this function's obligations were generated through
	SolverSecs     float64
	RetReach       string
	frame          *Frame
	query          *Query
}

// verifyFn generates the obligations of one function against its contract (if any).
// post is called after symbolic execution, before ensures are turned into obligations (property drivers add their own).
func (e *Engine) verifyFn(fn *ssa.Function, opts *VCOpts, post func(fr *Frame, q *Query)) *FnResult {
	drop := map[string]bool{}
	for round := 0; round < 6; round++ {
		r := e.verifyFnOnce(fn, opts, post, drop)
		// Houdini: keep only the auto-candidate loop invariants that are inductive together
		var autos []*Obligation
		for _, o := range r.Obls {
			if strings.HasPrefix(o.Tag, "auto:") {
				autos = append(autos, o)
			}
		}
		if len(autos) == 0 {
			return r
		}
		sub := &FnResult{Fn: r.Fn, Obls: autos, query: r.query, frame: r.frame, Background: r.Background}
		initSem(16)
		hb, hs := 2000, 1
		if len(r.Background) > 200000 {
			hb, hs = 8000, 3 // very large functions: give the candidate rounds more time, or sound candidates are dropped on timeouts
		}
		dischargeFn(sub, Tier{Name: "houdini", BatchMS: hb, SingleS: hs, Parallel: 16, Skip: func(*Obligation) bool { return false }, NoModels: true, BatchOnly: true, LiteOnly: true})
		changed := false
		for _, o := range autos {
			if o.Answer != "unsat" {
				k := strings.TrimPrefix(o.Tag, "auto:")
				if !drop[k] {
					drop[k] = true
					changed = true
					if os.Getenv("GOVC_DEBUG_HOUDINI") != "" {
						fmt.Fprintf(os.Stderr, "houdini round %d: drop %s [%s] %s\n", round, o.Kind, o.Answer, k)
					}
				}
			}
			o.Answer, o.Solver = "", ""
		}
		if !changed {
			return r
		}
	}
	return e.verifyFnOnce(fn, opts, post, drop)
}

func (e *Engine) verifyFnOnce(fn *ssa.Function, opts *VCOpts, post func(fr *Frame, q *Query), drop map[string]bool) *FnResult {
	// VC generation shares the engine's tables: one generator at a time (it takes milliseconds); solving runs outside
	genMu.Lock()
	genLocked = true
	defer func() {
		if genLocked {
			genLocked = false
			genMu.Unlock()
		}
	}()
	e.computeModSets()
	q := newQuery(e, opts)
	fr := newFrame(q, fn, nil)
	fr.autoDrop = drop
	ct := e.contractFor(fn, opts)
	fr.contract = ct
	res := &FnResult{Fn: fnKey(fn), HasContract: ct != nil && !ct.Auto, frame: fr, query: q}
	if fn.Blocks == nil {
		res.Unsupported = append(res.Unsupported, "no body")
		return res
	}
	st := &State{v: map[string]string{}, epoch: 0}
	top0 := q.get(st, "$top")
	q.assume("true", fmt.Sprintf("(> %s %d)", top0, globalEnd))
	var args []Val
	for _, p := range fn.Params {
		v := fr.namedVal("arg_"+sanitize(p.Name()), p.Type())
		fr.typeInv(v, p.Type(), "true", st)
		args = append(args, v)
	}
	var free []Val
	for _, fv := range fn.FreeVars {
		v := fr.namedVal("free_"+sanitize(fv.Name()), fv.Type())
		fr.typeInv(v, fv.Type(), "true", st)
		free = append(free, v)
	}
	if opts.ProtectParams {
		// tree shape (acyclicity): the node handed to a releasing function is not reachable from its own children,
		// so calls made on the children leave its fields alone (listed as an assumption by the driver)
		for i, p := range fn.Params {
			if pt, ok := underlying(p.Type()).(*ptrT); ok {
				if _, ok := underlying(pt.Elem()).(*types.Struct); ok {
					fr.protected = append(fr.protected, protectedObj{addr: args[i].C[0], typ: pt.Elem()})
				}
			}
		}
	}
	// receiver non-nil (auto precondition, checked at modular call sites by the `nil` obligations of callers)
	if fn.Signature.Recv() != nil && len(args) > 0 {
		if _, ok := underlying(fn.Params[0].Type()).(*ptrT); ok {
			q.assume("true", "(not (= "+args[0].C[0]+" 0))")
			fr.nonNilParams[fn.Params[0]] = true
		}
	}
	if ct != nil {
		env := newSpecEnv(fr, fn)
		env.bindParams(fn, args)
		env.st = st
		env.old = st
		fr.params = args
		for i, r := range ct.Requires {
			t, err := env.evalBool(r.Expr)
			if err != nil {
				q.note(fmt.Sprintf("contract of %s: requires %d: %v", fnKey(fn), i, err))
				res.Unsupported = append(res.Unsupported, fmt.Sprintf("requires %d: %v", i, err))
				continue
			}
			q.assume("true", t)
		}
	}
	fr.run(args, free, st, "true")
	if post != nil {
		post(fr, q)
	}
	if ct != nil {
		for _, r := range fr.rets {
			env := newSpecEnv(fr, fn)
			env.bindParams(fn, args)
			env.st = r.st
			env.old = fr.entry
			var all Val
			for _, rv := range r.results {
				all.C = append(all.C, rv.C...)
			}
			env.bindResults(fn, all)
			for i, en := range ct.Ensures {
				if !opts.checksTag(en.Tag) {
					continue
				}
				t, err := env.evalBool(en.Expr)
				if err != nil {
					if !ct.Default && !en.Inherited {
						q.note(fmt.Sprintf("contract of %s: ensures %d: %v", fnKey(fn), i, err))
						res.Unsupported = append(res.Unsupported, fmt.Sprintf("ensures %d: %v", i, err))
					}
					continue
				}
				q.addObligation(fr, "post", en.Text, r.ins.Pos(), r.reach, t)
			}
		}
	}
	var rr []string
	for _, r := range fr.rets {
		rr = append(rr, r.reach)
	}
	res.RetReach = sOr(rr...)
	res.NewLoopHelpers = sortedKeys(q.newLoopHelpers)
	res.StaleClauses = sortedKeys(q.stale)
	res.Obls = q.obls
	for _, n := range sortedKeys(q.notes) {
		res.Notes = append(res.Notes, n)
	}
	res.Unsupported = append(res.Unsupported, fr.unsupported...)
	res.Background = q.background(-1)
	return res
}

type ptrT = typesPointer

func (q *Query) header() string {
	var b strings.Builder
	b.WriteString(smtPrelude)
	for _, d := range q.decls {
		b.WriteString(d)
		b.WriteByte('\n')
	}
	if len(q.strOrder) >= 1 {
		b.WriteString("(assert (distinct str_empty")
		for _, s := range q.strOrder {
			b.WriteString(" " + q.strConsts[s])
		}
		b.WriteString("))\n")
	}
	for _, d := range q.eng.SpecDefs {
		b.WriteString(d + "\n")
	}
	for _, ax := range q.eng.Axioms {
		b.WriteString("(assert " + ax + ")\n")
	}
	return b.String()
}

// backgroundLite: quantifier-free weakening of background(n) for model finding
func (q *Query) backgroundLite(n int) string {
	var b strings.Builder
	h := q.header()
	h = strings.Replace(h, smtPrelude, smtPreludeLite, 1)
	b.WriteString(h)
	if n < 0 || n > len(q.asserts) {
		n = len(q.asserts)
	}
	for _, a := range q.asserts[:n] {
		if strings.Contains(a, "(forall ") || strings.Contains(a, "(exists ") {
			continue
		}
		b.WriteString("(assert ")
		b.WriteString(a)
		b.WriteString(")\n")
	}
	return b.String()
}

// background(n): header plus the first n assertions (n < 0: all)
func (q *Query) background(n int) string {
	var b strings.Builder
	b.WriteString(q.header())
	if n < 0 || n > len(q.asserts) {
		n = len(q.asserts)
	}
	for _, a := range q.asserts[:n] {
		b.WriteString("(assert ")
		b.WriteString(a)
		b.WriteString(")\n")
	}
	return b.String()
}

// ---------- discharging ----------

type Tier struct {
	Name         string
	BatchMS      int // per-check timeout inside the incremental batch
	SingleS      int // timeout for individually raced leftovers
	CrossCheck   bool
	Seed         int
	Parallel     int
	NoModels     bool
	LiteSatFinal func(o *Obligation) bool // obligations for which a counter-model of the quantifier-free part settles the question
	BatchOnly    bool
	LiteOnly     bool
	Skip         func(o *Obligation) bool // obligations for which the expensive one-shot/model stage is not wanted
}

func quickTier(seed int) Tier {
	return Tier{Name: "quick", BatchMS: 1500, SingleS: 10, Seed: seed, Parallel: 16}
}
func thoroughTier(seed int) Tier {
	return Tier{Name: "thorough", BatchMS: 10000, SingleS: 60, CrossCheck: true, Seed: seed, Parallel: 16}
}

type batchSolver struct {
	name string
	cmd  func(file string, ms int, seed int) []string
}

var batchSolvers = []batchSolver{
	{"z3-new-5.1.0", func(f string, ms, seed int) []string {
		return []string{"z3-new", "-smt2", fmt.Sprintf("-t:%d", ms), fmt.Sprintf("smt.random_seed=%d", seed), f}
	}},
	{"z3-4.8.12", func(f string, ms, seed int) []string {
		return []string{"/usr/bin/z3", "-smt2", fmt.Sprintf("-t:%d", ms), fmt.Sprintf("smt.random_seed=%d", seed), f}
	}},
	{"cvc5-1.0", func(f string, ms, seed int) []string {
		return []string{"cvc5", "--lang=smt2", "--incremental", fmt.Sprintf("--tlimit-per=%d", ms), fmt.Sprintf("--seed=%d", seed), f}
	}},
}

var solverSem chan struct{}

func initSem(n int) {
	if solverSem == nil {
		solverSem = make(chan struct{}, n)
	}
}

func runBatch(pctx context.Context, bs batchSolver, script string, ms int, seed int, n int) ([]string, float64) {
	fileMu.Lock()
	fileCounter++
	k := fileCounter
	fileMu.Unlock()
	f := filepath.Join(scratch(), fmt.Sprintf("b%d.smt2", k))
	os.WriteFile(f, []byte(script), 0o644)
	defer os.Remove(f)
	solverSem <- struct{}{}
	defer func() { <-solverSem }()
	t0 := time.Now()
	args := bs.cmd(f, ms, seed)
	total := time.Duration(n*ms)*time.Millisecond + 20*time.Second
	ctx, cancel := context.WithTimeout(pctx, total)
	defer cancel()
	if pctx.Err() != nil {
		return make([]string, n), 0
	}
	cmd := exec.CommandContext(ctx, args[0], args[1:]...)
	var out bytes.Buffer
	cmd.Stdout = &out
	cmd.Stderr = &out
	cmd.Run()
	sec := time.Since(t0).Seconds()
	// parse: answers between markers "@@k"
	ans := make([]string, n)
	for i := range ans {
		ans[i] = "timeout"
	}
	cur := -1
	for _, line := range strings.Split(out.String(), "\n") {
		line = strings.TrimSpace(strings.Trim(strings.TrimSpace(line), "\""))
		if strings.HasPrefix(line, "@@") {
			fmt.Sscanf(line, "@@%d", &cur)
			continue
		}
		if cur >= 0 && cur < n {
			switch line {
			case "sat", "unsat", "unknown":
				ans[cur] = line
				cur = -1
			}
		}
	}
	return ans, sec
}

// discharge decides all obligations of the given function results.
func discharge(results []*FnResult, tier Tier) {
	initSem(tier.Parallel)
	var wg sync.WaitGroup
	for _, r := range results {
		r := r
		if len(r.Obls) == 0 || r.query == nil {
			continue // nothing to solve (synthetic results carry their answers)
		}
		wg.Add(1)
		go func() {
			defer wg.Done()
			dischargeFn(r, tier)
		}()
	}
	wg.Wait()
}

var debugDumpOb string

func obQuery(r *FnResult, o *Obligation) string {
	if debugDumpOb != "" && strings.Contains(o.Name, debugDumpOb) {
		os.WriteFile("/tmp/govc_ob.smt2", []byte(r.query.background(o.AssertIdx)+"(assert "+o.Guard+")\n(assert (not "+o.Cond+"))\n(check-sat)\n(get-model)\n"), 0o644)
	}
	return r.query.background(o.AssertIdx) + "(assert " + o.Guard + ")\n(assert (not " + o.Cond + "))\n(check-sat)\n(get-model)\n"
}

func dischargeFn(r *FnResult, tier Tier) {
	// trivial ones first
	var todo []int
	for i, o := range r.Obls {
		if o.Cond == "true" || o.Guard == "false" {
			o.Answer = "unsat"
			o.Solver = "trivial"
			continue
		}
		if tier.Skip != nil && tier.Skip(o) {
			o.Answer = "not-attempted"
			o.Solver = "undecided on the unchanged tree; unclaimed"
			continue
		}
		todo = append(todo, i)
	}
	if len(todo) == 0 {
		return
	}
	pos := map[int]int{}
	for k, i := range todo {
		pos[i] = k
	}
	nAll := len(todo)
	// script for a subset of the obligations; obligations are interleaved with the assertion stream:
	// an obligation sees only what was known when it was generated
	lite := false
	mkScript := func(sub []int) string {
		var sb strings.Builder
		if lite {
			sb.WriteString(strings.Replace(r.query.header(), smtPrelude, smtPreludeLite, 1))
		} else {
			sb.WriteString(r.query.header())
		}
		ord := append([]int(nil), sub...)
		sort.SliceStable(ord, func(a, b int) bool { return r.Obls[ord[a]].AssertIdx < r.Obls[ord[b]].AssertIdx })
		na := 0
		for _, i := range ord {
			o := r.Obls[i]
			for ; na < o.AssertIdx && na < len(r.query.asserts); na++ {
				if lite && (strings.Contains(r.query.asserts[na], "(forall ") || strings.Contains(r.query.asserts[na], "(exists ")) {
					continue
				}
				sb.WriteString("(assert " + r.query.asserts[na] + ")\n")
			}
			fmt.Fprintf(&sb, "(echo \"@@%d\")\n(push 1)\n(assert %s)\n(assert (not %s))\n(check-sat)\n(pop 1)\n", pos[i], o.Guard, o.Cond)
		}
		return sb.String()
	}
	all := map[string][]string{}
	for _, bs := range batchSolvers {
		all[bs.name] = make([]string, nAll)
	}
	runStage := func(solvers []batchSolver, sub []int) {
		if len(sub) == 0 {
			return
		}
		script := mkScript(sub)
		type br struct {
			name string
			ans  []string
			sec  float64
		}
		ch := make(chan br, len(solvers))
		for _, bs := range solvers {
			bs := bs
			go func() {
				a, s := runBatch(context.Background(), bs, script, tier.BatchMS, tier.Seed, nAll)
				ch <- br{bs.name, a, s}
			}()
		}
		inSub := map[int]bool{}
		for _, i := range sub {
			inSub[pos[i]] = true
		}
		for range solvers {
			x := <-ch
			for k := range x.ans {
				if inSub[k] {
					all[x.name][k] = x.ans[k]
				}
			}
			r.SolverSecs += x.sec
		}
	}
	// stage 0: the quantifier-free part of the background alone (its unsat answers carry over: the full background
	// only adds assertions); most obligations need nothing else and sat answers come back at once
	liteSat := map[int]bool{}
	{
		lite = true
		runStage(batchSolvers[:1], todo)
		lite = false
		var rest []int
		for k, i := range todo {
			a := all[batchSolvers[0].name][k]
			if a == "unsat" {
				r.Obls[i].Answer = "unsat"
				r.Obls[i].Solver = batchSolvers[0].name + " (quantifier-free part)"
				continue
			}
			if a == "sat" {
				liteSat[i] = true
			}
			all[batchSolvers[0].name][k] = ""
			if a == "sat" && tier.LiteSatFinal != nil && tier.LiteSatFinal(r.Obls[i]) {
				r.Obls[i].Answer = "sat"
				r.Obls[i].Solver = batchSolvers[0].name + " (quantifier-free part)"
				continue
			}
			rest = append(rest, i)
		}
		todo = rest
		if len(todo) == 0 || tier.LiteOnly {
			for _, i := range todo {
				if r.Obls[i].Answer == "" {
					r.Obls[i].Answer = "unknown"
				}
			}
			return
		}
	}
	if tier.CrossCheck {
		runStage(batchSolvers, todo)
	} else {
		// quick: z3-new first, the other two only on what it leaves open
		runStage(batchSolvers[:1], todo)
		var open []int
		for _, i := range todo {
			k := pos[i]
			if all[batchSolvers[0].name][k] != "unsat" {
				open = append(open, i)
			}
		}
		runStage(batchSolvers[1:], open)
	}
	var left []int
	for _, i := range todo {
		k := pos[i]
		o := r.Obls[i]
		var uns, sats []string
		for _, bs := range batchSolvers {
			switch all[bs.name][k] {
			case "unsat":
				uns = append(uns, bs.name)
			case "sat":
				sats = append(sats, bs.name)
			}
		}
		switch {
		case len(uns) > 0 && len(sats) > 0:
			o.Answer = "error"
			o.Solver = "disagreement:" + strings.Join(uns, ",") + " vs " + strings.Join(sats, ",")
		case len(uns) > 0:
			o.Answer = "unsat"
			o.Solver = strings.Join(uns, "+")
			if tier.CrossCheck && len(uns) < 2 {
				o.Solver += " (single)"
			}
		default:
			if len(sats) > 0 {
				o.Answer = "sat"
				o.Solver = strings.Join(sats, "+")
			} else {
				o.Answer = "unknown"
			}
			left = append(left, i)
		}
	}
	if tier.BatchOnly {
		return
	}
	// leftovers: race individually in one-shot mode (stronger tactics) and fetch a model
	var wg sync.WaitGroup
	for _, i := range left {
		o := r.Obls[i]
		if tier.Skip != nil && tier.Skip(o) {
			continue
		}
		wg.Add(1)
		go func() {
			defer wg.Done()
			solverSem <- struct{}{}
			sr := solve(obQuery(r, o), tier.SingleS, tier.Seed, false)
			<-solverSem
			o.Seconds = sr.Seconds
			switch sr.Answer {
			case "unsat":
				o.Answer = "unsat"
				o.Solver = sr.Solver + " (one-shot)"
			case "sat":
				o.Answer = "sat"
				o.Solver = sr.Solver
				o.Model = sr.Model
			default:
				if o.Answer != "sat" {
					o.Answer = sr.Answer
					o.Solver = sr.Solver
				}
			}
			if o.Answer != "unsat" && o.Model == "" && !tier.NoModels {
				// candidate counter-model from the quantifier-free weakening (to be replayed, never trusted)
				lq := r.query.backgroundLite(o.AssertIdx) + "(assert " + o.Guard + ")\n(assert (not " + o.Cond + "))\n(check-sat)\n(get-model)\n"
				solverSem <- struct{}{}
				lr := solve(lq, 10, tier.Seed, false)
				<-solverSem
				if lr.Answer == "sat" {
					o.Model = lr.Model
					o.ModelLite = true
				}
			}
		}()
	}
	wg.Wait()
}

// coverCheck: the function's normal exit must be reachable under its preconditions (vacuity guard)
func coverCheck(r *FnResult, tier Tier) {
	if r.RetReach == "" || r.RetReach == "false" {
		r.CoverAnswer = "no-return"
		return
	}
	initSem(tier.Parallel)
	// canary reading: the guard fails only when the normal exit is provably unreachable (vacuous context).
	// Functions with written contracts are checked against the full background, the others against its
	// quantifier-free part (cheap; a contradiction among ground facts is what a bad callee contract produces).
	bg := r.query.backgroundLite(-1)
	to := 3
	if r.HasContract {
		bg = r.Background
		to = 5
	}
	fileMu.Lock()
	fileCounter++
	n := fileCounter
	fileMu.Unlock()
	f := filepath.Join(scratch(), fmt.Sprintf("c%d.smt2", n))
	os.WriteFile(f, []byte(bg+"(assert "+r.RetReach+")\n(check-sat)\n"), 0o644)
	defer os.Remove(f)
	solverSem <- struct{}{}
	ans, _, _ := runOne(context.Background(), solvers[0], f, to, tier.Seed)
	<-solverSem
	r.CoverAnswer = ans
	r.CoverOK = ans != "unsat"
}

func summarize(results []*FnResult) (total, discharged int, byKind map[string][2]int) {
	byKind = map[string][2]int{}
	for _, r := range results {
		for _, o := range r.Obls {
			total++
			k := byKind[o.Kind]
			k[0]++
			if o.Answer == "unsat" {
				discharged++
				k[1]++
			}
			byKind[o.Kind] = k
		}
	}
	return
}

func sortObls(os []*Obligation) {
	sort.Slice(os, func(i, j int) bool { return os[i].Name < os[j].Name })
}

var _ = ssa.GlobalDebug
