#!/bin/bash
# usage: confirm_mutant.sh <ID> <outdir>   (outdir holds patch.diff, demo_test.go, meta.json)
# Confirms on the CURRENT /repo HEAD: patch applies, suite passes with it, demo fails with it and passes without it.
set -u
ID=$1; OUT=$2
export GOFLAGS=-mod=mod GOPROXY=off GOSUMDB=off GOTOOLCHAIN=local
W=/tmp/cm_$ID
git -C /repo worktree remove --force $W >/dev/null 2>&1
git -C /repo worktree add --detach $W HEAD >/dev/null 2>&1 || { echo "worktree failed"; exit 2; }
cleanup() { git -C /repo worktree remove --force $W >/dev/null 2>&1; }
trap cleanup EXIT
dest=$(head -1 $OUT/demo_test.go | sed -n 's|.*copy to: *\([^ ]*\).*|\1|p')
[ -z "$dest" ] && { echo "no copy-to header in demo"; exit 2; }
tn=$(grep -o "func TestSeeded[A-Za-z0-9_]*" $OUT/demo_test.go | head -1 | sed 's/func //')
cp $OUT/demo_test.go $W/$dest/zz_seeded_demo_test.go
without=$(cd $W && go test -count=1 -vet=off -timeout 300s -run "^$tn\$" ./$dest 2>&1 | tail -3)
echo "$without" | grep -q "^ok" && wo=PASS || wo=FAIL
rm -f $W/$dest/zz_seeded_demo_test.go
(cd $W && git apply --3way $OUT/patch.diff >/dev/null 2>&1) || { echo "$ID: patch does not apply on current HEAD"; exit 3; }
(cd $W && git reset -q)
suite=$(/verif/tools/suite.sh $W | head -1)
cp $OUT/demo_test.go $W/$dest/zz_seeded_demo_test.go
with=$(cd $W && go test -count=1 -vet=off -timeout 300s -run "^$tn\$" ./$dest 2>&1 | tail -3)
echo "$with" | grep -q "^ok" && wi=PASS || wi=FAIL
rm -f $W/$dest/zz_seeded_demo_test.go
(cd $W && git diff) > /tmp/cm_$ID.rebased.diff
echo "$ID: suite_with_change=[$suite] demo_without=$wo demo_with=$wi"
if echo "$suite" | grep -q "notpassing=0" && [ $wo = PASS ] && [ $wi = FAIL ]; then
  mkdir -p /verif/seeded/$ID
  cp /tmp/cm_$ID.rebased.diff /verif/seeded/$ID/patch.diff
  cp $OUT/demo_test.go /verif/seeded/$ID/demo_test.go
  cp $OUT/meta.json /verif/seeded/$ID/meta.orig.json 2>/dev/null
  echo "$ID: CONFIRMED"
  exit 0
fi
echo "$ID: NOT confirmed"; exit 1
