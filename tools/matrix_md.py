#!/usr/bin/env python3
# usage: matrix_md.py <mutants.log> [<benign.log>]  -> writes seeded/MATRIX.md from the output of run_mutants.sh / run_benign.sh
import sys, json, os, re
log = open(sys.argv[1]).read().splitlines()
rows = []
for l in log:
    m = re.match(r'^(\S+): caught by:(.*)$', l)
    if not m:
        m2 = re.match(r'^(\S+): patch does not apply', l)
        if not m2:
            continue
        mid, caught = m2.group(1), 'n/a - no longer applies (the code it changed was rewritten by a later fix)'
    else:
        mid, caught = m.group(1), m.group(2).strip()
    meta = {}
    for fn in ('meta.json', 'meta.orig.json'):
        p = os.path.join('/verif/seeded', mid, fn)
        if os.path.exists(p):
            try:
                meta = json.load(open(p)); break
            except Exception:
                pass
    summ = (meta.get('summary') or '').replace('\n', ' ')
    summ = re.split(r'(?<=[.;])\s', summ)[0][:230]
    rows.append((mid, meta.get('property', mid[:3]), summ, caught))
out = ['# Seeded property-breaking changes and the checks that report them', '',
       'Each change was written by a sub-agent that saw only the property text (for the b/c variants also a focus area), compiles, passes the',
       'pinned test suite, and comes with a demonstration test that fails with the change and passes without it (`tools/confirm_mutant.sh`).',
       '`tools/run_mutants.sh` applies each change to a scratch worktree of the pinned /repo commit and runs every registered check;',
       'the number in parentheses is the number of VIOLATION lines. "none" = no check of this family reports the change.', '',
       '| id | property | change | reported by |', '|---|---|---|---|']
for r in rows:
    out.append('| %s | %s | %s | %s |' % (r[0], r[1], r[2].replace('|', '/'), r[3] or 'none'))
live = [r for r in rows if not r[3].startswith('n/a')]
own = sum(1 for r in live if r[3] != 'none' and r[1] in r[3])
anyc = sum(1 for r in live if r[3] != 'none')
out += ['', '%d changes; %d reported by some check, %d of them by the check of the property they were written against.' % (len(live), anyc, own)]
if len(sys.argv) > 2 and os.path.exists(sys.argv[2]):
    out += ['', '## Behaviour-preserving refactorings (`selftest/benign`, must raise no alarm)', '']
    for l in open(sys.argv[2]).read().splitlines():
        m = re.match(r'^\s*(B\d+): alarms:(.*)$', re.sub(r'\s+', ' ', l))
        if m:
            out.append('* %s: %s' % (m.group(1), m.group(2).strip()))
open('/verif/seeded/MATRIX.md', 'w').write('\n'.join(out) + '\n')
print('\n'.join(out[-6:]))
