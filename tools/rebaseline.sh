#!/bin/bash
cd /verif
for id in ${@:-C01 C02 C08 C09 C10 C11 C12 C13 C14 C16 C18}; do
  ./bin/govc check $id --write-baseline -v 2>&1 | grep -v "^KNOWN" | grep "NOT-DISCHARGED \(post\|pre\|inv\|dec\|schema\|rank\|rg\|own\|struct\)\|^C[0-9]" | cut -c1-220 | tail -12
done
