#!/bin/bash
cd /verif
for id in ${@:-C01 C02 C04 C05 C08 C09 C10 C11 C12 C13 C14 C15 C16 C18 C19 C20}; do
  ./bin/govc check $id --write-baseline -v 2>&1 | grep -v "^KNOWN" | grep "NOT-DISCHARGED \(post\|pre\|inv\|dec\|schema\|rank\|rg\|own\|struct\|crash\|reads\)\|^C[0-9]" | cut -c1-220 | tail -12
done
