#!/bin/bash
# records the /repo commits that carry the guarded contract files (messages starting "verif:") in MANIFEST.hooks.source_commits
cd /verif
python3 - <<'P'
import json,subprocess
c=subprocess.run(['git','-C','/repo','log','--grep','^verif:','--format=%H','--reverse'],capture_output=True,text=True).stdout.split()
m=json.load(open('MANIFEST.json'))
m['hooks']['source_commits']=c
json.dump(m,open('MANIFEST.json','w'),indent=1)
print(len(c),'hook commits recorded')
P
