#!/bin/bash
# runs every check registered in MANIFEST.json (quick tier) on the current /repo tree, validates evidence files
cd /verif
rc=0
for id in $(python3 -c "import json;print(' '.join(c['property_id'] for c in json.load(open('MANIFEST.json'))['checks']))"); do
  out=$(./bin/govc check $id --tier quick 2>&1); r=$?
  echo "$out" | tail -1
  if [ $r -ne 0 ]; then rc=1; echo "  !! exit $r"; echo "$out" | grep VIOLATION | head -5; fi
done
python3-vt - <<'P'
import json,jsonschema,glob
m=json.load(open('/verif/MANIFEST.json'))
jsonschema.validate(m,json.load(open('/root/.vp/MANIFEST.schema.json')))
sch=json.load(open('/root/.vp/EVIDENCE.schema.json'))
for c in m['checks']:
    e=json.load(open('/verif/'+c['evidence_file']))
    jsonschema.validate(e,sch)
    cov=e['coverage']
    if e['level']=='proof' and cov['obligations']!=cov['discharged']:
        print('EVIDENCE MISMATCH',c['property_id'],cov['obligations'],cov['discharged'])
print('manifest+evidence valid')
P
exit $rc
