#!/bin/bash
# usage: run_benign.sh [ids...] -- behaviour-preserving refactorings: no check may raise an alarm on any of them
V=${VERIF_DIR:-/verif}
BASE=${BASE:-$(git -C /repo rev-parse HEAD)}   # pin the commit: /repo may move on while this runs
cd $V
ids=${@:-$(ls selftest/benign/*.diff | xargs -n1 basename | sed 's/.diff//')}
checks=${CHECKS:-$(python3 -c "import json;print(' '.join(c['property_id'] for c in json.load(open('MANIFEST.json'))['checks']))")}
R=${RUNDIR:-/tmp/benrun}; mkdir -p $R
for id in $ids; do
  W=$R/w_$id
  git -C /repo worktree remove --force $W >/dev/null 2>&1
  git -C /repo worktree add --detach $W $BASE >/dev/null 2>&1
  (cd $W && git apply --3way $V/selftest/benign/$id.diff >/dev/null 2>&1 && git reset -q) || { echo "$id: patch does not apply"; git -C /repo worktree remove --force $W; continue; }
  alarms=""
  for c in $checks; do
    out=$(VERIF_OUT_DIR=$R/out_$id VERIF_DIR=$V ${GOVC:-./bin/govc} check $c -repo $W 2>&1); r=$?
    if [ $r -ne 0 ]; then alarms="$alarms $c($(echo "$out" | grep -c '^VIOLATION'))"; echo "$out" | grep -A1 "^VIOLATION" | grep obligation | head -4 | cut -c1-220 | sed "s/^/    $id $c /"; fi
  done
  echo "$id: alarms:${alarms:- none}"
  git -C /repo worktree remove --force $W >/dev/null 2>&1
done
