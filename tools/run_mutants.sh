#!/bin/bash
# usage: run_mutants.sh [ids...]  -- applies each seeded change to a scratch worktree of /repo's HEAD and runs every
# registered check against it (evidence redirected to a scratch dir); prints which checks raise a violation.
V=${VERIF_DIR:-/verif}
BASE=${BASE:-$(git -C /repo rev-parse HEAD)}   # pin the commit: /repo may move on while this runs
cd $V
ids=${@:-$(ls seeded)}
checks=${CHECKS:-$(python3 -c "import json;print(' '.join(c['property_id'] for c in json.load(open('MANIFEST.json'))['checks']))")}
mkdir -p /tmp/mutrun
for id in $ids; do
  W=/tmp/mutrun/w_$id
  git -C /repo worktree remove --force $W >/dev/null 2>&1
  git -C /repo worktree add --detach $W $BASE >/dev/null 2>&1
  (cd $W && git apply --3way $V/seeded/$id/patch.diff >/dev/null 2>&1 && git reset -q) || { echo "$id: patch does not apply"; git -C /repo worktree remove --force $W; continue; }
  caught=""
  for c in $checks; do
    out=$(VERIF_OUT_DIR=/tmp/mutrun/out_$id VERIF_DIR=$V ${GOVC:-./bin/govc} check $c -repo $W 2>&1); r=$?
    if [ $r -eq 1 ]; then caught="$caught $c($(echo "$out" | grep -c '^VIOLATION'))"; fi
    if [ $r -ge 2 ]; then caught="$caught $c(ERR)"; fi
  done
  echo "$id: caught by:${caught:- none}"
  git -C /repo worktree remove --force $W >/dev/null 2>&1
  rm -rf /tmp/mutrun/out_$id
done
