#!/bin/bash
# usage: suite.sh <repo-dir> [tags]   -- runs the pinned suite (root module + tutorial modules), compares with BASELINE stable_pass
# exit 0 iff every stable_pass test passes.
set -u
D=${1:-/repo}; TAGS=${2:-}
export GOFLAGS=-mod=mod GOPROXY=off GOSUMDB=off GOTOOLCHAIN=local
OUT=$(mktemp /tmp/suite.XXXXXX.json)
for m in . examples/tutorials/01-sql-validator examples/tutorials/02-sql-formatter; do
  [ -f "$D/$m/go.mod" ] || continue
  (cd "$D/$m" && go test ${TAGS:+-tags $TAGS} -json -vet=off -count=1 -timeout 25m ./... ) >> "$OUT" 2>/dev/null
done
python3 - "$OUT" <<'P'
import json,sys
base=json.load(open('/root/.vp/BASELINE.json'))
want=set(base['stable_pass'])
res={}
for l in open(sys.argv[1]):
    try: e=json.loads(l)
    except Exception: continue
    if e.get('Test') and e.get('Action') in('pass','fail','skip'):
        res[e['Package']+'::'+e['Test']]=e['Action']
bad=[t for t in want if res.get(t)!='pass']
print(f"stable_pass={len(want)} passed={len(want)-len(bad)} notpassing={len(bad)}")
for t in sorted(bad)[:40]: print("  NOTPASS",t,res.get(t))
sys.exit(1 if bad else 0)
P
rc=$?; rm -f "$OUT"; exit $rc
